import EntraitModel.Analyze
/-
  Generated items and their printers (`trait_codegen.rs`, `fn_delegation_codegen.rs`,
  `attributes.rs`, the `ToTokens` half of `generics.rs`).  Generated items are structured
  (attributes, parameters with bounds, where predicates, members with signature and body) so
  that properties are stated on the structure; `render` gives the token stream.
-/
namespace Entrait

inductive GenMember
  | fn (attrs : List Attr) (sig : Sig) (body : Option Toks)   -- `none`: `;` (trait), `some b`: `{ b }`
  | raw (toks : Toks)
  deriving DecidableEq, Repr, Inhabited

def GenMember.print : GenMember → Toks
  | .fn attrs sig none => printAttrs attrs ++ sig.print ++ [p ';']
  | .fn attrs sig (some b) => printAttrs attrs ++ sig.print ++ [braces b]
  | .raw t => t

structure GenTrait where
  attrs : List Attr := []
  vis : Toks := []
  ident : String
  params : List GParam := []
  colon : Bool := false
  supertraits : List Toks := []
  strail : Bool := false
  preds : List WherePred := []
  wtrail : Bool := false
  members : List GenMember := []
  deriving DecidableEq, Repr, Inhabited

/-- `ParamsGenerator` / `ArgumentsGenerator` style: `<a, b>` in the stored order, nothing if empty -/
def angle (xs : List Toks) : Toks :=
  if xs.isEmpty then [] else [p '<'] ++ joinSep [p ','] xs ++ [p '>']

def printWherePreds (preds : List WherePred) (trailing : Bool) : Toks :=
  if preds.isEmpty then [] else i "where" :: commaSep (preds.map WherePred.print) trailing

def GenTrait.print (t : GenTrait) : Toks :=
  printAttrs t.attrs ++ t.vis ++ [i "trait", i t.ident] ++ angle (t.params.map GParam.print) ++
  (if t.colon then p ':' :: printBounds t.supertraits t.strail else []) ++
  printWherePreds t.preds t.wtrail ++ [braces (t.members.flatMap GenMember.print)]

structure GenImpl where
  attrs : List Attr := []
  params : List GParam := []
  traitRef : Toks
  selfTy : Toks
  preds : List WherePred := []
  members : List GenMember := []
  deriving DecidableEq, Repr, Inhabited

def GenImpl.print (m : GenImpl) : Toks :=
  printAttrs m.attrs ++ [i "impl"] ++ angle (m.params.map GParam.print) ++ m.traitRef ++
  [i "for"] ++ m.selfTy ++ printWherePreds m.preds false ++ [braces (m.members.flatMap GenMember.print)]

inductive GenItem
  | trait (t : GenTrait)
  | impl (m : GenImpl)
  | raw (toks : Toks)
  deriving DecidableEq, Repr, Inhabited

def GenItem.print : GenItem → Toks
  | .trait t => t.print
  | .impl m => m.print
  | .raw t => t

def printGen (gs : List GenItem) : Toks := gs.flatMap GenItem.print

/-! ### absolute paths the macro refers to -/

def corePath (segs : List String) : Toks := segs.flatMap (fun s => pathSep ++ [i s])

def syncToks : Toks := corePath ["core", "marker", "Sync"]
def sendToks : Toks := corePath ["core", "marker", "Send"]
def staticToks : Toks := lifetimeToks "static"
def entraitT : String := "EntraitT"

/-! ### attributes -/

/-- `ExportGatedAttr` -/
def exportGated (exported : Bool) (params : Toks) : Attr :=
  if exported then { inner := params }
  else { inner := [i "cfg_attr", parens ([i "test", p ','] ++ params)] }

def unimockPrefix : Toks := corePath ["entrait", "__unimock"]
def unimockPath : Toks := corePath ["entrait", "__unimock", "unimock"]
def mockallPath : Toks := corePath ["mockall", "automock"]

/-- identifiers of the typed `Pat::Ident` parameters -/
def paramIdents : List FnArg → List String
  | [] => []
  | .typed _ (.ident _ _ name _) _ :: rest => name :: paramIdents rest
  | _ :: rest => paramIdents rest

def unmockEntry (tf : TraitFn) : Toks :=
  match tf.deps with
  | .generic _ _ => [i tf.sig.ident]
  | .concrete _ => [i "_"]
  | .noDeps => [i tf.sig.ident, parens (joinSep [p ','] ((paramIdents tf.sig.inputs).map fun a => [i a]))]

inductive TraitIndirection | plain | trait | staticImpl | dynamicImpl
  deriving DecidableEq, Repr, Inhabited

/-- `UnimockAttrParams`; `none` = `is_empty()` -/
def unimockParams (ind : TraitIndirection) (mockApi : Option String) (mode : InputMode)
    (fns : List TraitFn) : Option Toks :=
  if ind == .plain && mockApi.isNone then none
  else
    let prefix_ : Toks := [i "prefix", p '='] ++ unimockPrefix
    let api : List Toks :=
      match mockApi with
      | some m => [[i "api", p '='] ++ (if mode == .singleFn then [brackets [i m]] else [i m])]
      | none => []
    let unmock : List Toks :=
      if mode != .rawTrait && !fns.isEmpty then
        [[i "unmock_with", p '=', brackets (joinSep [p ','] (fns.map unmockEntry))]]
      else []
    some (unimockPath ++ [parens (joinSep [p ','] (prefix_ :: api ++ unmock))])

/-- `#[::entrait::entrait(unimock = false, mockall = false)]` -/
def entraitForTraitAttr : Attr :=
  { inner := corePath ["entrait", "entrait"] ++
      [parens [i "unimock", p '=', i "false", p ',', i "mockall", p '=', i "false"]] }

/-! ### trait definition -/

def futurePath : Toks := corePath ["core", "future", "Future"]

/-- `make_trait_fn_sig` -/
def makeTraitFnSig (sig : Sig) (subAttrs : List Attr) (opts : Opts) : Sig :=
  if sig.async_ && !containsAsyncTrait subAttrs then
    let outTy : Toks := sig.output.getD [parens []]
    let fut : Toks := futurePath ++ [p '<', i "Output", p '='] ++ outTy ++ [p '>']
    let bounds : List Toks := if opts.futureSendValue then [fut, sendToks] else [fut]
    { sig with async_ := false, output := some (i "impl" :: joinSep [p '+'] bounds) }
  else sig

/-- a restriction relative to the module outside (`pub(self)`, `pub(super)`, `pub(in self..)`,
    `pub(in super..)`) re-based one module level further in; anything else is kept -/
def rebaseVis : Toks → Toks
  | [.ident "pub", .group .paren [.ident "self"]] => [i "pub", parens [i "in", i "super"]]
  | [.ident "pub", .group .paren [.ident "super"]] => [i "pub", parens ([i "in", i "super"] ++ pathSep ++ [i "super"])]
  | [.ident "pub", .group .paren (.ident "in" :: .ident "self" :: rest)] => [i "pub", parens (i "in" :: i "super" :: rest)]
  | [.ident "pub", .group .paren (.ident "in" :: .ident "super" :: rest)] =>
      [i "pub", parens ([i "in", i "super"] ++ pathSep ++ (i "super" :: rest))]
  | vis => vis

/-- `TraitVisibility` -/
def traitVisibility (mode : InputMode) (vis : Toks) : Toks :=
  match mode with
  | .module | .implBlock => if vis.isEmpty then [i "pub", parens [i "super"]] else rebaseVis vis
  | .singleFn | .rawTrait => vis

structure Supertraits where
  colon : Bool := false
  bounds : List Toks := []
  trailing : Bool := false
  deriving DecidableEq, Repr, Inhabited

def unimockAttrOf (opts : Opts) (ind : TraitIndirection) (mode : InputMode) (fns : List TraitFn) : List Attr :=
  if opts.unimockValue then
    match unimockParams ind opts.mockApi mode fns with
    | some ps => [exportGated opts.exportValue ps]
    | none => []
  else []

def entraitAttrOf (depMode : DepMode) : List Attr :=
  match depMode with
  | .concrete _ => [entraitForTraitAttr]
  | .generic => []

def mockallAttrOf (opts : Opts) : List Attr :=
  if opts.mockallValue then [exportGated opts.exportValue mockallPath] else []

/-- the sub-attributes entrait re-applies to what it generates: for an entraited trait all of its
    attributes stay on it; from a function or module only `async_trait` / `automock` are copied -/
def reappliedSubs (mode : InputMode) (subAttrs : List Attr) : List Attr :=
  if mode == .rawTrait then subAttrs
  else subAttrs.filter (fun a => a.subKind == .asyncTrait || a.subKind == .automock)

/-- `TraitCodegen::gen_trait_def` -/
def genTraitDef (opts : Opts) (ind : TraitIndirection) (depMode : DepMode) (subAttrs : List Attr)
    (vis : Toks) (ident : String) (tg : TraitGenerics) (sup : Supertraits)
    (fns : List TraitFn) (mode : InputMode) : GenTrait :=
  { attrs := unimockAttrOf opts ind mode fns ++ entraitAttrOf depMode ++ mockallAttrOf opts ++ reappliedSubs mode subAttrs
    vis := traitVisibility mode vis
    ident := ident
    params := tg.params
    colon := sup.colon
    supertraits := sup.bounds
    strail := sup.trailing
    preds := tg.preds
    wtrail := tg.wtrail
    members := fns.map fun tf => .fn tf.attrs (makeTraitFnSig tf.sig subAttrs opts) none }

/-! ### delegating impl block for functions -/

inductive ImplIndirection
  | none
  | static_ (ty : Toks)
  | dynamic (ty : Toks)
  deriving DecidableEq, Repr, Inhabited

def ImplIndirection.isNone : ImplIndirection → Bool
  | .none => true
  | _ => false

def Sig.takesSelfByValue (s : Sig) : Bool :=
  match s.inputs with
  | .recv _ none _ _ :: _ => true
  | _ => false

/-- the `EntraitT: Sync [+ Send] + 'static` parameter -/
def implTParam (byValue : Bool) : GParam :=
  .ty [] entraitT ([syncToks] ++ (if byValue then [sendToks] else []) ++ [staticToks]) false none

/-- `ArgumentsGenerator` -/
def genericArgs (ind : ImplIndirection) (params : List GParam) : Toks :=
  angle ((if ind.isNone then [] else [[i entraitT]]) ++ params.map GParam.argToks)

/-- all bounds declared on the dependency parameter, over all trait fns -/
def depsBounds : List TraitFn → List Toks
  | [] => []
  | tf :: rest =>
      (match tf.deps with | .generic _ bs => bs | _ => []) ++ depsBounds rest

def selfTy_ : Ty := .path false false 1 "Self" [i "Self"]

/-- `ImplWhereClauseGenerator` -/
def implWherePreds (depMode : DepMode) (ind : ImplIndirection) (fns : List TraitFn)
    (tg : TraitGenerics) : List WherePred :=
  let depPred : List WherePred :=
    match depMode with
    | .generic =>
        let bs := depsBounds fns
        if bs.isEmpty then []
        else [.ty [] (if ind.isNone then selfTy_ else implPathTy) bs false]
    | .concrete _ => []
  depPred ++ tg.preds

/-- `SelfTy` -/
def implSelfTy (depMode : DepMode) (ind : ImplIndirection) (mockable : Bool) : Toks :=
  match depMode with
  | .generic =>
      match ind with
      | .none => if mockable then implPathToks else [i entraitT]
      | .static_ ty => ty
      | .dynamic ty => ty
  | .concrete ty => ty.print

/-- `opt_self_comma`: `self,` unless the function has no dependency or is an impl-block function
    (whose `__impl` is an ordinary parameter) -/
def selfCommaOf (ind : ImplIndirection) (tf : TraitFn) : Toks :=
  match tf.deps, tf.sig.inputs, ind with
  | .noDeps, _, _ => []
  | _, [], _ => []
  | _, _, .static_ _ => []
  | _, _, .dynamic _ => []
  | _, _ :: _, .none => [i "self", p ',']

/-- body of a delegating method: `[Self::]f([self,] a, b)[.await]` -/
def delegatingBody (mode : InputMode) (ind : ImplIndirection) (tf : TraitFn) : Toks :=
  let scoping : Toks := if mode == .implBlock then [i "Self"] ++ pathSep else []
  let selfComma : Toks := selfCommaOf ind tf
  let args : Toks := joinSep [p ','] ((paramIdents tf.sig.inputs).map fun a => [i a])
  scoping ++ [i tf.sig.ident, parens (selfComma ++ args)] ++
  (if tf.originallyAsync then [p '.', i "await"] else [])

/-- the panic site of `gen_delegating_fn_item`: a typed parameter that is not `Pat::Ident` -/
def hasNonIdentParam : List FnArg → Bool
  | [] => false
  | .typed _ (.other _ _) _ :: _ => true
  | _ :: rest => hasNonIdentParam rest

/-- `impl_params`: the macro's own type parameter (generic dependency mode only), then the lifted ones -/
def implParams (depMode : DepMode) (byValue : Bool) (tgParams : List GParam) : List GParam :=
  -- `ParamsGenerator`: lifetimes first, then the macro's own parameter, then the others without defaults
  tgParams.filter GParam.isLifetime ++
  (match depMode with | .generic => [implTParam byValue] | .concrete _ => []) ++
  (tgParams.filter (fun q => !q.isLifetime)).map GParam.stripDefault

/-- `FnDelegationCodegen::gen_impl_block` -/
def genImplBlock (opts : Opts) (traitRef : Toks) (ind : ImplIndirection) (tg : TraitGenerics)
    (mode : InputMode) (depMode : DepMode) (subAttrs : List Attr) (fns : List TraitFn) :
    Except String GenImpl :=
  if fns.any (fun tf => hasNonIdentParam tf.sig.inputs) then
    .error "fn_delegation_codegen.rs: Found a non-ident pattern"
  else
    .ok
      { attrs := subAttrs.filter (fun a => a.subKind == .asyncTrait)
        params := implParams depMode (fns.any (fun tf => tf.sig.takesSelfByValue)) tg.params
        traitRef := traitRef ++ genericArgs ind tg.params
        selfTy := implSelfTy depMode ind opts.mockable
        preds := implWherePreds depMode ind fns tg
        members := fns.map fun tf => .fn tf.attrs tf.sig (some (delegatingBody mode ind tf)) }

end Entrait
