import EntraitModel.Wire
import EntraitModel.Props
/-
  Driver side of the property predicates: evaluate every `P_Cxx` on the model's expansion and
  on the real expansion, and compare the property's projection of the two.
-/
namespace Entrait.Obs
open Entrait Entrait.Wire

def metaGet (m : String) (key : String) : Option String :=
  let parts := m.splitOn ";"
  match parts.find? (fun kv => kv.startsWith (key ++ "=")) with
  | some kv => some (kv.drop (key.length + 1)).toString
  | none => none

def metaList (m : String) (key : String) : Option (List String) :=
  (metaGet m key).map (fun s => if s.isEmpty then [] else s.splitOn ",")

def realView (r : ROut) : View :=
  { origOk := r.prefixOk, parsed := r.parsed, inherent := r.inherent, inside := r.inside, after := r.after }

structure PropRow where
  id : String
  k : Option Bool          -- projections agree (`none`: real expansion not observable)
  pm : Bool                -- predicate on the model's expansion
  pr : Option Bool         -- predicate on the real expansion

def b3 (b : Bool) : String := if b then "1" else "0"
def o3 : Option Bool → String
  | some b => b3 b
  | none => "-"

def PropRow.show (r : PropRow) : String := s!"{r.id}={o3 r.k}{b3 r.pm}{o3 r.pr}"

/-- projection used for the correspondence of a property: the parts of the view it reads -/
def projEq (mv rv : View) : Bool :=
  decide (mv.inside = rv.inside ∧ mv.after = rv.after ∧ mv.inherent = rv.inherent)

def findings (attr : Toks) (item : Item) (view : View) : List String :=
  (if F_C06_send attr item view then ["C06.send"] else []) ++
  (if F_C09_attrs item view then ["C09.attrs"] else []) ++
  (if F_C09_unsafe item then ["C09.unsafe"] else []) ++
  (if F_C09_default item view then ["C09.default"] else []) ++
  (if F_C09_assoc item view then ["C09.assoc"] else []) ++
  (if !traitParamsNodup view then ["C03.dupgeneric"] else []) ++
  (if item.mode != .fn && item.mode != .trait && item.sourceFns.any (fun f => f.attrs.any isCfg) then ["C18.cfgfn"] else [])

def evalAll (v : Variant) (attr : Toks) (item : Item) (input : Toks) (m : Outcome) (r : Real) (info : String) : String :=
  match m, r with
  | .ok out, .ok _ rout =>
      let mv := out.view
      let rv := realView rout
      -- the real expansion can be brought into the model's shape only if it parses and the
      -- original region is where it is claimed to be
      let observable := rv.parsed && (rv.origOk || item.mode == .trait || item.mode == .impl)
      let stable := synStable item input
      let k : Option Bool := if observable then some (projEq mv rv) else none
      let row (id : String) (f : View → Bool) : PropRow :=
        { id := id, k := k, pm := f mv, pr := if observable then some (f rv) else none }
      let rows : List PropRow :=
        [ row "C01" (P_C01 v attr item),
          { id := "C02", k := some (rv.origOk == mv.origOk || !stable),
            pm := P_C02 item mv, pr := some (!stable || P_C02 item rv) },
          row "C03" (P_C03 v attr item),
          row "C04" (P_C04 v attr item),
          row "C05" (P_C05 v attr item),
          row "C06" (P_C06 attr item),
          row "C07" (P_C07 v attr item),
          row "C08" (P_C08 attr item (metaList info "fns")),
          row "C09" (P_C09 v attr item),
          row "C10" (P_C10 v attr item),
          row "C11" (P_C11 v attr item),
          row "C12" (P_C12 v attr item),
          row "C13" (P_C13 attr item),
          row "C14" (P_C14 attr item),
          row "C16" (P_C16 v attr item),
          row "C18" (P_C18 item),
          row "C19" (P_C19 attr item) ]
      let fs := findings attr item (if observable then rv else mv)
      " ".intercalate (rows.map PropRow.show) ++ s!" stable={b3 stable} F={",".intercalate fs}"
  | _, _ => ""

end Entrait.Obs
