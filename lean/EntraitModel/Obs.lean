import EntraitModel.Wire
import EntraitModel.Props
/-
  Driver side of the property predicates: evaluate every `P_Cxx` on the model's expansion and
  on the real expansion, and compare the property's projection of the two.
-/
namespace Entrait.Obs
open Entrait Entrait.Wire

def metaGet (m : String) (key : String) : Option String :=
  let parts := m.splitOn ";"
  match parts.find? (fun kv => kv.startsWith (key ++ "=")) with
  | some kv => some (kv.drop (key.length + 1)).toString
  | none => none

def metaList (m : String) (key : String) : Option (List String) :=
  (metaGet m key).map (fun s => if s.isEmpty then [] else s.splitOn ",")

/-! ### Rust-equivalent respelling of the real expansion

  The correspondence between the model's and the macro's expansion is taken *up to* one respelling
  that Rust defines to mean the same: a where-predicate `EntraitT: bounds` (no `for<..>`) on the
  macro's own impl parameter, when that parameter is declared without inline bounds, is the inline
  declaration `EntraitT: bounds`.  The real expansion is brought to the model's spelling before it
  is compared or judged; on an expansion that already has the model's spelling this is the identity. -/

def isPredOn (name : String) : WherePred → Bool
  | .ty [] (.path false false 1 n _) _ _ => n == name
  | _ => false

def predBounds : WherePred → List Toks
  | .ty _ _ bs _ => bs
  | _ => []

def removeFirst {α : Type} (f : α → Bool) : List α → List α
  | [] => []
  | x :: xs => if f x then xs else x :: removeFirst f xs

def canonImpl (im : GenImpl) : GenImpl :=
  let bare := im.params.any (fun q => match q with | .ty [] n [] false none => n == entraitT | _ => false)
  match bare, im.preds.find? (isPredOn entraitT) with
  | true, some pr =>
      { im with
        params := im.params.map (fun q => match q with
          | .ty [] n [] false none => if n == entraitT then .ty [] n (predBounds pr) false none else q
          | q => q)
        preds := removeFirst (isPredOn entraitT) im.preds }
  | _, _ => im

def canonItem : GenItem → GenItem
  | .impl im => .impl (canonImpl im)
  | x => x

/-- … and up to the order of the bounds inside one bound list of an impl header (`A + B` ≡ `B + A`):
    where a parameter / where-predicate of the real impl has the same bounds as the model's at the same
    position, in another order, the model's order is taken. -/
def alignParam : GParam → GParam → GParam
  | .ty a n bs bt d, .ty a' n' bs' bt' d' =>
      if n == n' && sameMultiset bs bs' then .ty a' n' bs bt' d' else .ty a' n' bs' bt' d'
  | _, r => r

def alignPred : WherePred → WherePred → WherePred
  | .ty l t bs _, .ty l' t' bs' bt' =>
      if decide (l = l') && decide (t = t') && sameMultiset bs bs' then .ty l' t' bs bt' else .ty l' t' bs' bt'
  | _, r => r

/-- … and up to splitting one where-predicate into several on the same type (`X: A + B + C` ≡ `X: A + B, X: C`):
    where consecutive predicates of the real impl, all on the type of the model's predicate at that position (same
    `for<..>` binder), together carry the model's bounds, they are read as the model's one predicate.  Predicates the
    model itself keeps apart (the user's own `T: A, T: B`) match one to one and stay apart. -/
def takeMerged (l : Toks) (t : Ty) (want : List Toks) : List Toks → List WherePred → Option (List Toks × List WherePred)
  | acc, .ty l' t' bs _ :: rest =>
      if decide (l = l') && decide (t = t') then
        let acc' := acc ++ bs
        if sameMultiset acc' want then some (acc', rest)
        else if acc'.length < want.length then takeMerged l t want acc' rest
        else none
      else none
  | _, _ => none

def mergeToward : List WherePred → List WherePred → List WherePred
  | [], rs => rs
  | _, [] => []
  | .ty l t bs bt :: ms, rs =>
      match takeMerged l t bs [] rs with
      | some (acc, rest) => .ty l t acc bt :: mergeToward ms rest
      | none => rs
  | _ :: ms, r :: rs => r :: mergeToward ms rs

def zipAlign {α : Type} (f : α → α → α) : List α → List α → List α
  | m :: ms, r :: rs => f m r :: zipAlign f ms rs
  | _, rs => rs

/-- … and up to writing the two glue conversions of a trait-mode delegating body in fully qualified form:
    `<::entrait::Impl<EntraitT> as ::core::convert::AsRef<EntraitT>>::as_ref(e)` for `e.as_ref()` (with `&self` for
    an auto-referenced `self`), and `<EntraitT as ::core::convert::AsRef<dyn Tr<..>>>::as_ref(e)` /
    `<EntraitT as ::core::borrow::Borrow<dyn Tr<..>>>::borrow(e)` for `e.as_ref()` / `e.borrow()`, where `Tr<..>` is
    the trait the impl is for: these name exactly the impls the method calls resolve to under the impl's where
    clause.  Only these exact spellings are read back; anything else (another path, another type) is left alone. -/
def dropPrefix? (pre ts : Toks) : Option Toks :=
  if pre.isPrefixOf ts then some (ts.drop pre.length) else none

def stripAmpSelf : Toks → Toks
  | [.punct '&', .ident "self"] => [.ident "self"]
  | ts => ts

def hop1 : Toks :=
  [p '<'] ++ implPathToks ++ [i "as"] ++ asRefPath ++ [p '<', i entraitT, p '>', p '>'] ++ pathSep ++ [i "as_ref"]

def hop2 (borrow : Bool) (traitRef : Toks) : Toks :=
  [p '<', i entraitT, i "as"] ++ (if borrow then borrowPath else asRefPath) ++ [p '<', i "dyn"] ++ traitRef ++
  [p '>', p '>'] ++ pathSep ++ [i (if borrow then "borrow" else "as_ref")]

def deUfcs (traitRef : Toks) : Nat → Toks → Toks
  | 0, ts => ts
  | _, [] => []
  | fuel + 1, t :: rest =>
      match dropPrefix? hop1 (t :: rest) with
      | some (.group .paren e :: rest') =>
          deUfcs traitRef fuel (stripAmpSelf e) ++ [p '.', i "as_ref", parens []] ++ deUfcs traitRef fuel rest'
      | _ =>
        match dropPrefix? (hop2 false traitRef) (t :: rest) with
        | some (.group .paren e :: rest') =>
            deUfcs traitRef fuel e ++ [p '.', i "as_ref", parens []] ++ deUfcs traitRef fuel rest'
        | _ =>
          match dropPrefix? (hop2 true traitRef) (t :: rest) with
          | some (.group .paren e :: rest') =>
              deUfcs traitRef fuel e ++ [p '.', i "borrow", parens []] ++ deUfcs traitRef fuel rest'
          | _ => t :: deUfcs traitRef fuel rest

/-- … and up to a redundant block around the whole body (`{ { call } }` ≡ `{ call }`) -/
def unwrapBlock : Nat → Toks → Toks
  | 0, ts => ts
  | fuel + 1, [.group .brace inner] => unwrapBlock fuel inner
  | _, ts => ts

def alignMember (traitRef : Toks) : GenMember → GenMember → GenMember
  | .fn _ _ (some mb), .fn a s (some rb) =>
      let rb' := unwrapBlock 4 rb
      if rb != mb && (deUfcs traitRef (rb'.length + 1) rb' == mb) then .fn a s (some mb) else .fn a s (some rb)
  | _, r => r

/-! ### names of the macro's own binders

  `EntraitT` (the type parameter of a generated impl / delegation-target trait) and `__impl` (the parameter that
  stands for the dependency in an impl block's methods) are binders the macro invents; no user code can name them.
  Where the real item has, at the position of the model's binder, a binder of another name — and the model's name
  does not occur in the real item — the real item is read with the model's name (α-renaming, on every identifier
  token of the item).  A name that collides with something the user wrote changes which binder those tokens refer
  to and does not survive this reading unchanged. -/

mutual
def renTT (f t : String) : TT → TT
  | .ident s => .ident (if s == f then t else s)
  | .group d ts => .group d (renToks f t ts)
  | x => x
def renToks (f t : String) : List TT → List TT
  | [] => []
  | x :: xs => renTT f t x :: renToks f t xs
end

def renName (f t s : String) : String := if s == f then t else s

def renTy (f t : String) : Ty → Ty
  | .implTrait bs tr => .implTrait (bs.map (renToks f t)) tr
  | .path q l n first toks => .path q l n (renName f t first) (renToks f t toks)
  | .ref_ lt m e => .ref_ lt m (renTy f t e)
  | .paren e => .paren (renTy f t e)
  | .other toks => .other (renToks f t toks)

def renPat (f t : String) : Pat → Pat
  | .ident r m n sub => .ident r m (renName f t n) (sub.map (renToks f t))
  | .other toks bs => .other (renToks f t toks) (bs.map (renName f t))

def renGParam (f t : String) : GParam → GParam
  | .ty a n bs bt d => .ty a (renName f t n) (bs.map (renToks f t)) bt (d.map (renToks f t))
  | .lt a n bs bt => .lt a n (bs.map (renToks f t)) bt
  | .const_ a n ty d => .const_ a (renName f t n) (renToks f t ty) (d.map (renToks f t))

def renPred (f t : String) : WherePred → WherePred
  | .ty l b bs bt => .ty (renToks f t l) (renTy f t b) (bs.map (renToks f t)) bt
  | .other toks => .other (renToks f t toks)

def renArg (f t : String) : FnArg → FnArg
  | .recv a r m c => .recv a r m (c.map (renToks f t))
  | .typed a pt ty => .typed a (renPat f t pt) (renTy f t ty)

def renSig (f t : String) (s : Sig) : Sig :=
  { s with generics := { s.generics with params := s.generics.params.map (renGParam f t), preds := s.generics.preds.map (renPred f t) },
           inputs := s.inputs.map (renArg f t), output := s.output.map (renToks f t) }

def renMember (f t : String) : GenMember → GenMember
  | .fn a s b => .fn a (renSig f t s) (b.map (renToks f t))
  | .raw ts => .raw (renToks f t ts)

def renImpl (f t : String) (im : GenImpl) : GenImpl :=
  { im with params := im.params.map (renGParam f t), traitRef := renToks f t im.traitRef, selfTy := renToks f t im.selfTy,
            preds := im.preds.map (renPred f t), members := im.members.map (renMember f t) }

def renTrait (f t : String) (tr : GenTrait) : GenTrait :=
  { tr with params := tr.params.map (renGParam f t), supertraits := tr.supertraits.map (renToks f t),
            preds := tr.preds.map (renPred f t), members := tr.members.map (renMember f t) }

def mentionsIdent (s : String) (ts : Toks) : Bool := (TT.flattenList ts).contains (.ident s)

/-- the real binder standing where the model's binder `name` stands in a parameter list -/
def binderAt (name : String) : List GParam → List GParam → Option String
  | .ty _ n _ _ _ :: ms, .ty _ n' _ _ _ :: rs => if n == name then (if n' == name then none else some n') else binderAt name ms rs
  | _ :: ms, _ :: rs => binderAt name ms rs
  | _, _ => none

def argBinderAt (name : String) : List FnArg → List FnArg → Option String
  | .typed _ (.ident _ _ n _) _ :: ms, .typed _ (.ident _ _ n' _) _ :: rs =>
      if n == name then (if n' == name then none else some n') else argBinderAt name ms rs
  | _ :: ms, _ :: rs => argBinderAt name ms rs
  | _, _ => none

def renameMemberToward : GenMember → GenMember → GenMember
  | .fn _ ms _, .fn a rs b =>
      match argBinderAt "__impl" ms.inputs rs.inputs with
      | some y =>
          let r := GenMember.fn a rs b
          if mentionsIdent "__impl" r.print then r else renMember y "__impl" r
      | none => .fn a rs b
  | _, r => r

def renameImplToward (mi ri : GenImpl) : GenImpl :=
  let ri1 :=
    match binderAt entraitT mi.params ri.params with
    | some x => if mentionsIdent entraitT ri.print then ri else renImpl x entraitT ri
    | none => ri
  { ri1 with members := zipAlign renameMemberToward mi.members ri1.members }

def renameTraitToward (mt rt : GenTrait) : GenTrait :=
  let rt1 :=
    match binderAt entraitT mt.params rt.params with
    | some x => if mentionsIdent entraitT rt.print then rt else renTrait x entraitT rt
    | none => rt
  { rt1 with members := zipAlign renameMemberToward mt.members rt1.members }

def renameItemToward : GenItem → GenItem → GenItem
  | .impl mi, .impl ri => .impl (renameImplToward mi ri)
  | .trait mt, .trait rt => .trait (renameTraitToward mt rt)
  | _, r => r

def alignItem : GenItem → GenItem → GenItem
  | .impl mi, .impl ri =>
      .impl { ri with params := zipAlign alignParam mi.params ri.params, preds := zipAlign alignPred mi.preds (mergeToward mi.preds ri.preds)
                      members := zipAlign (alignMember ri.traitRef) mi.members ri.members }
  | _, r => r

/-- … and up to the order of sibling items: the order of items in a module or block has no meaning to rustc (the
    macro generates no `macro_rules!`).  Where the real items are the model's in another order — same kinds, same
    trait names / implemented traits, all different — they are read in the model's order. -/
def itemKey : GenItem → Nat × Toks
  | .trait t => (0, [.ident t.ident])
  | .impl im => (1, im.traitRef ++ [.punct '@'] ++ im.selfTy)
  | .raw ts => (2, ts)

def distinctKeys : List (Nat × Toks) → Bool
  | [] => true
  | k :: ks => !ks.contains k && distinctKeys ks

def permuteToward (model real : List GenItem) : List GenItem :=
  let mk := model.map itemKey
  let rk := real.map itemKey
  if mk.length == rk.length && distinctKeys mk && mk.all rk.contains then
    model.filterMap (fun m => real.find? (fun r => itemKey r == itemKey m))
  else real

/-- the real generated items in the model's spelling (respelling of `EntraitT`'s bounds, order of bounds, order of items) -/
def alignItems (model real : List GenItem) : List GenItem :=
  zipAlign alignItem model (zipAlign renameItemToward model (permuteToward model (real.map canonItem)))

def realView (r : ROut) : View :=
  { origOk := r.prefixOk, parsed := r.parsed, inherent := r.inherent,
    inside := r.inside.map canonItem, after := r.after.map canonItem }

/-- the real items with the bodies of their methods replaced by the model's (position by position) -/
def transplantMember : GenMember → GenMember → GenMember
  | .fn _ _ (some b), .fn a s (some _) => .fn a s (some b)
  | _, r => r

def transplantItem : GenItem → GenItem → GenItem
  | .impl mi, .impl ri => .impl { ri with members := zipAlign transplantMember mi.members ri.members }
  | .trait mt, .trait rt => .trait { rt with members := zipAlign transplantMember mt.members rt.members }
  | _, r => r

def transplantBodies (mv rv : View) : View :=
  { rv with inside := zipAlign transplantItem mv.inside rv.inside, after := zipAlign transplantItem mv.after rv.after }

def realViewToward (mv : View) (r : ROut) : View :=
  { origOk := r.prefixOk, parsed := r.parsed, inherent := r.inherent,
    inside := alignItems mv.inside r.inside, after := alignItems mv.after r.after }

/-- a delegating body of the real expansion that differs from the model's and is not a recognised call expression -/
def unrecognisedMember : GenMember → GenMember → Bool
  | .fn _ _ (some mb), .fn _ _ (some rb) => rb != mb && (parseCall rb).isNone
  | _, _ => false

def zipAny {α : Type} (f : α → α → Bool) : List α → List α → Bool
  | m :: ms, r :: rs => f m r || zipAny f ms rs
  | _, _ => false

def hasUnrecognisedBody (mv rv : View) : Bool :=
  zipAny (fun m r => match m, r with
    | .impl mi, .impl ri => zipAny unrecognisedMember mi.members ri.members
    | .trait mt, .trait rt => zipAny unrecognisedMember mt.members rt.members
    | _, _ => false) mv.items rv.items

structure PropRow where
  id : String
  k : Option Bool          -- projections agree (`none`: real expansion not observable)
  pm : Bool                -- predicate on the model's expansion
  pr : Option Bool         -- predicate on the real expansion
  bodyOnly : Bool := false -- the predicate fails on the real expansion, but holds once the delegating
                           -- bodies are read as the model's: only the spelling of a body is unrecognised

def b3 (b : Bool) : String := if b then "1" else "0"
def o3 : Option Bool → String
  | some b => b3 b
  | none => "-"

def PropRow.show (r : PropRow) : String := s!"{r.id}={o3 r.k}{b3 r.pm}{o3 r.pr}"

/-! Projections: the aspects of an expansion a property reads.  The correspondence of a property
    compares only its aspects, so that a change of the code elsewhere in the output does not
    break the tie for a property it cannot affect. -/

def normSig (s : Sig) : Sig := { s with itrail := false }

def memberSigs (ms : List GenMember) : List (Option Sig) := ms.map (fun m => m.sig?.map normSig)
def memberBodies (ms : List GenMember) : List (Option Toks) :=
  ms.map (fun m => match m with | .fn _ _ b => b | .raw t => some t)

inductive Aspect | attrs | vis | header | sigs | bodies | traitBodies | memberAttrs | orig
  deriving DecidableEq

def aspectEq (a : Aspect) (mv rv : View) : Bool :=
  let mt := traitsOf mv.items; let rt := traitsOf rv.items
  let mi := implsOf mv.items; let ri := implsOf rv.items
  match a with
  | .attrs => decide (mt.map (·.attrs) = rt.map (·.attrs) ∧ mi.map (·.attrs) = ri.map (·.attrs))
  | .vis => decide (mt.map (·.vis) = rt.map (·.vis)) &&
      decide ((mv.items.filter (fun g => match g with | .raw _ => true | _ => false)) =
              (rv.items.filter (fun g => match g with | .raw _ => true | _ => false)))
  | .header =>
      decide (mt.map (·.ident) = rt.map (·.ident)) && decide (mt.map (·.params) = rt.map (·.params)) &&
      decide (mt.map (·.colon) = rt.map (·.colon)) && decide (mt.map (·.supertraits) = rt.map (·.supertraits)) &&
      decide (mt.map (·.preds) = rt.map (·.preds)) &&
      decide (mi.map (·.params) = ri.map (·.params)) && decide (mi.map (·.traitRef) = ri.map (·.traitRef)) &&
      decide (mi.map (·.selfTy) = ri.map (·.selfTy)) && decide (mi.map (·.preds) = ri.map (·.preds))
  | .sigs => decide (mt.map (fun t => memberSigs t.members) = rt.map (fun t => memberSigs t.members) ∧
                     mi.map (fun m => memberSigs m.members) = ri.map (fun m => memberSigs m.members))
  | .bodies => decide (mt.map (fun t => memberBodies t.members) = rt.map (fun t => memberBodies t.members) ∧
                       mi.map (fun m => memberBodies m.members) = ri.map (fun m => memberBodies m.members))
  | .traitBodies => decide (mt.map (fun t => memberBodies t.members) = rt.map (fun t => memberBodies t.members))
  | .memberAttrs => decide (mt.map (fun t => t.members.map GenMember.attrs) = rt.map (fun t => t.members.map GenMember.attrs) ∧
                            mi.map (fun m => m.members.map GenMember.attrs) = ri.map (fun m => m.members.map GenMember.attrs))
  | .orig => mv.origOk == rv.origOk && decide (mv.inherent = rv.inherent)

def aspectsOf : String → List Aspect
  | "C01" => [.sigs, .bodies]
  | "C02" => [.orig]
  | "C03" => [.sigs, .header]
  | "C04" => [.header]
  | "C05" => [.attrs, .header, .bodies, .sigs]
  | "C06" => [.header, .sigs, .bodies]
  | "C07" => [.header, .sigs, .bodies, .vis]
  | "C08" => [.sigs, .vis, .header]
  | "C09" => [.attrs, .header, .sigs, .vis, .memberAttrs, .traitBodies]
  | "C10" => [.attrs]
  | "C11" => [.attrs, .sigs]
  | "C12" => [.sigs, .bodies, .attrs]
  | "C13" => [.vis]
  | "C14" => [.bodies, .header, .attrs, .sigs]
  | "C16" => [.sigs]
  | "C18" => [.attrs, .memberAttrs, .sigs]
  | "C19" => [.header, .attrs, .bodies, .sigs]
  | _ => [.attrs, .vis, .header, .sigs, .bodies, .memberAttrs, .orig]

def projEq (prop : String) (mv rv : View) : Bool := (aspectsOf prop).all (fun a => aspectEq a mv rv)

def findings (attr : Toks) (item : Item) (view : View) : List String :=
  (if F_C06_send attr item view then ["C06.send"] else []) ++
  (if F_C09_attrs item view then ["C09.attrs"] else []) ++
  (if F_C09_unsafe item then ["C09.unsafe"] else []) ++
  (if F_C09_default item view then ["C09.default"] else []) ++
  (if F_C09_assoc item view then ["C09.assoc"] else []) ++
  (if !traitParamsNodup view then ["C03.dupgeneric"] else []) ++
  (if F_C03_ltbound item view then ["C03.ltbound"] else []) ++
  (if F_C18_cfgattr item view then ["C18.cfgattr"] else [])

def evalAll (v : Variant) (attr : Toks) (item : Item) (input : Toks) (m : Outcome) (r : Real) (info : String) : String :=
  match m, r with
  | .ok out, .ok _ rout =>
      let mv := out.view
      let rv := realViewToward mv rout
      -- the real expansion can be brought into the model's shape only if it parses and the
      -- original region is where it is claimed to be
      let observable := rv.parsed
      let stable := synStable item input
      let rvB := transplantBodies mv rv
      let row (id : String) (f : View → Bool) : PropRow :=
        { id := id, k := if observable then some (projEq id mv rv) else none,
          pm := f mv, pr := if observable then some (f rv) else none,
          -- "only the spelling of a body is not recognised": some real body is not one of the call shapes at all.
          -- A body that *is* a recognised call — with another callee, other arguments or another order — is judged
          -- as it stands (a failing input), not set aside as a respelling
          bodyOnly := observable && !(f rv) && f rvB && hasUnrecognisedBody mv rv }
      let rows : List PropRow :=
        [ row "C01" (P_C01 v attr item),
          { id := "C02", k := some (rv.origOk == mv.origOk || !stable),
            pm := !stable || P_C02 item mv, pr := some (!stable || P_C02 item rv) },
          row "C03" (fun view => P_C03 v attr item view && (!item.lifetimesOk || P_C03_closed item view)),
          row "C04" (P_C04 v attr item),
          -- second stage of a concrete-dependency fn: `Impl<T>` must forward to `T: Trait`
          row "C05" (if (metaGet info "nested").isSome then P_C06 attr item else P_C05_full v attr item),
          row "C06" (P_C06 attr item),
          row "C07" (P_C07 attr item),
          row "C08" (P_C08 attr item (metaList info "fns")),
          row "C09" (P_C09 v attr item),
          -- the second stage of a concrete-dependency fn: the nested invocation must not mock
          row "C10" (if (metaGet info "nested").isSome
                     then (fun view => (traitsOf view.items).all (fun t => mockKinds t == item.attrs.filterMap Attr.mockKind))
                     else P_C10 v attr item),
          row "C11" (P_C11 v attr item),
          row "C12" (P_C12 v attr item),
          row "C13" (P_C13 attr item),
          row "C14" (P_C14_full v attr item),
          row "C16" (P_C16 v attr item),
          row "C18" (P_C18 item),
          row "C19" (P_C19 attr item) ]
      let fs := findings attr item (if observable then rv else mv)
      let bo := (rows.filter (·.bodyOnly)).map (·.id)
      " ".intercalate (rows.map PropRow.show) ++ s!" stable={b3 stable} idok={b3 item.identsOk} F={",".intercalate fs} BO={",".intercalate bo}"
  | _, _ => ""

/-! ### macro-owned inert attributes

  A harmless change may put attributes *of the macro's own* on what it generates (`#[inline]` on delegating
  methods, `#[automatically_derived]` on impls, `#[allow(..)]`, generated docs).  The properties speak about the
  attributes the *user* wrote; the correspondence is therefore taken up to inert built-in attributes that the
  macro demonstrably adds by itself: the driver lists every such attribute found on a real generated item together
  with whether the user wrote the same attribute anywhere in the input (`XA=`); an attribute seen on some case
  whose input does not contain it is the macro's own (decided over the whole run, tools/runner.py), and a second
  pass removes exactly those from the real items (`stripOwned`).  A *copy* of a user's attribute never qualifies:
  it only ever appears where the input has it. -/

def inertAttr (a : Attr) : Bool :=
  match a.inner.head? with
  | some (.ident s) => ["inline", "automatically_derived", "allow", "cold", "doc"].contains s
  | _ => false

def userAttrs (item : Item) : List Attr :=
  item.attrs ++ item.sourceFns.flatMap (·.attrs) ++
  (match item with | .trait t => t.fns.flatMap (·.attrs) | _ => [])

def genItemAttrs : GenItem → List Attr
  | .trait t => t.attrs ++ t.members.flatMap GenMember.attrs
  | .impl im => im.attrs ++ im.members.flatMap GenMember.attrs
  | .raw _ => []

def stripMember (owned : List Toks) : GenMember → GenMember
  | .fn as s b => .fn (as.filter (fun a => !owned.contains a.inner)) s b
  | m => m

def stripItem (owned : List Toks) : GenItem → GenItem
  | .trait t => .trait { t with attrs := t.attrs.filter (fun a => !owned.contains a.inner), members := t.members.map (stripMember owned) }
  | .impl im => .impl { im with attrs := im.attrs.filter (fun a => !owned.contains a.inner), members := im.members.map (stripMember owned) }
  | x => x

def stripOwned (owned : List Toks) (r : Real) : Real :=
  if owned.isEmpty then r else
  match r with
  | .ok toks rout => .ok toks { rout with inside := rout.inside.map (stripItem owned), after := rout.after.map (stripItem owned) }
  | x => x

/-- the second pass, guided by the model's expansion: of the attributes the macro was seen to add by itself, a real
    item keeps as many as the model's item at that position carries (those are mirrored or re-applied ones — the
    user's, in whatever stage wrote them) and loses the rest. -/
def stripAttrsToward (owned : List Toks) : List Attr → List Attr → List Attr
  | _, [] => []
  | budget, a :: rest =>
      if owned.contains a.inner then
        if budget.contains a then a :: stripAttrsToward owned (budget.erase a) rest
        else stripAttrsToward owned budget rest
      else a :: stripAttrsToward owned (budget.erase a) rest

def stripMemberToward (owned : List Toks) : Option GenMember → GenMember → GenMember
  | some (.fn mas _ _), .fn as s b => .fn (stripAttrsToward owned mas as) s b
  | _, .fn as s b => .fn (stripAttrsToward owned [] as) s b
  | _, m => m

def zipOpt {α β : Type} (f : Option α → β → β) : List α → List β → List β
  | m :: ms, r :: rs => f (some m) r :: zipOpt f ms rs
  | [], r :: rs => f none r :: zipOpt f [] rs
  | _, [] => []

def stripItemToward (owned : List Toks) : Option GenItem → GenItem → GenItem
  | some (.trait mt), .trait t =>
      .trait { t with attrs := stripAttrsToward owned mt.attrs t.attrs, members := zipOpt (stripMemberToward owned) mt.members t.members }
  | some (.impl mi), .impl im =>
      .impl { im with attrs := stripAttrsToward owned mi.attrs im.attrs, members := zipOpt (stripMemberToward owned) mi.members im.members }
  | _, .trait t =>
      .trait { t with attrs := stripAttrsToward owned [] t.attrs, members := zipOpt (stripMemberToward owned) [] t.members }
  | _, .impl im =>
      .impl { im with attrs := stripAttrsToward owned [] im.attrs, members := zipOpt (stripMemberToward owned) [] im.members }
  | _, x => x

def stripOwnedToward (owned : List Toks) (mInside mAfter : List GenItem) (r : Real) : Real :=
  if owned.isEmpty then r else
  match r with
  | .ok toks rout =>
      .ok toks { rout with inside := zipOpt (stripItemToward owned) mInside (permuteToward mInside rout.inside),
                           after := zipOpt (stripItemToward owned) mAfter (permuteToward mAfter rout.after) }
  | x => x

/-- inert attributes on the real generated items, each with: did the user write the same attribute in the input? -/
def inertOnGenerated (item : Item) (r : Real) : List (Attr × Bool) :=
  match r with
  | .ok _ rout =>
      let ua := userAttrs item
      ((rout.inside ++ rout.after).flatMap genItemAttrs).filter inertAttr |>.map (fun a => (a, ua.contains a))
  | _ => []

def hexDigit (n : Nat) : Char := if n < 10 then Char.ofNat (48 + n) else Char.ofNat (87 + n)
def hexOf (s : String) : String :=
  String.ofList (s.toUTF8.toList.flatMap (fun b => [hexDigit (b.toNat / 16), hexDigit (b.toNat % 16)]))

def parseLocus (s : String) : Option Locus :=
  match s.splitOn ":" with
  | ["call"] => some .callSite
  | ["attr", a, n] => do some (.attr (← a.toNat?) (← n.toNat?))
  | ["item", a, n] => do some (.item (← a.toNat?) (← n.toNat?))
  | _ => none

/-- C15 is about every outcome, not only successful expansions.  `cmp`: the positions of the
    model's printed item are those of the input text (print round trip, syn's printer stable) -/
def evalC15 (v : Variant) (attr : Toks) (item : Item) (m : Outcome) (r : Real) (cmp : Bool) : String :=
  let (rp, rd0, parsed) : Bool × Option (List String) × Bool :=
    match r with
    | .ok _ rout => (false, none, rout.parsed)
    | .diag msgs _ => (false, some msgs, true)
    | .panic _ => (true, none, true)
  -- the wording of a diagnostic is not part of the correspondence: where the model and the macro both
  -- answer with a diagnostic, the text of the macro's *first* one is read as a relabelling of the model's message
  -- (the macro may go on and report further, independent mistakes of the same invocation) (that
  -- the relabelling keeps the messages apart is checked over the whole run, tools/runner.py)
  let rd : Option (List String) :=
    match m, r with
    | .diag mm, .diag (_ :: rest) _ => some (mm :: rest)
    | _, _ => rd0
  let (mp, md) : Bool × Option (List String) :=
    match m with
    | .ok _ => (false, none)
    | .diag msg => (false, some [msg])
    | .synErr => (false, match rd with | some msgs => some msgs | none => some ["<syn>"])   -- syn's message is not modelled
    | .panic _ => (true, none)
  -- where the diagnostic points
  let mloc : Option Locus := match m with | .diag _ => diagLocus v attr item | _ => none
  let rlocS : String := match r with | .diag (_ :: _) (l :: _) => l | _ => "-"
  let rloc : Option Locus := parseLocus rlocS
  let mAt : Bool := match m with | .diag msg => P_C15_at attr item (some (msg, mloc)) | _ => true
  let rAt : Bool := match m, r with | .diag msg, .diag (_ :: _) _ => !cmp || P_C15_at attr item (some (msg, rloc)) | _, _ => true
  let locK : Bool := match m, r with
    | .diag _, .diag (_ :: _) _ => !cmp || decide (mloc = rloc)
    | _, _ => true
  let pm := P_C15 attr item mp md true && mAt
  let pr := P_C15 attr item rp rd parsed && rAt
  let msg := match r with | .diag (x :: _) _ => hexOf x | .panic x => hexOf x | _ => ""
  let mmsg := match m with | .diag x => hexOf x | .synErr => "syn" | _ => ""
  s!"C15={b3 locK}{b3 pm}{b3 pr} msg={msg} mmsg={mmsg} mloc={match mloc with | some l => l.show | none => "-"} rloc={rlocS}"

end Entrait.Obs
