import EntraitModel.Wire
import EntraitModel.Props
/-
  Driver side of the property predicates: evaluate every `P_Cxx` on the model's expansion and
  on the real expansion, and compare the property's projection of the two.
-/
namespace Entrait.Obs
open Entrait Entrait.Wire

def metaGet (m : String) (key : String) : Option String :=
  let parts := m.splitOn ";"
  match parts.find? (fun kv => kv.startsWith (key ++ "=")) with
  | some kv => some (kv.drop (key.length + 1)).toString
  | none => none

def metaList (m : String) (key : String) : Option (List String) :=
  (metaGet m key).map (fun s => if s.isEmpty then [] else s.splitOn ",")

def realView (r : ROut) : View :=
  { origOk := r.prefixOk, parsed := r.parsed, inherent := r.inherent, inside := r.inside, after := r.after }

structure PropRow where
  id : String
  k : Option Bool          -- projections agree (`none`: real expansion not observable)
  pm : Bool                -- predicate on the model's expansion
  pr : Option Bool         -- predicate on the real expansion

def b3 (b : Bool) : String := if b then "1" else "0"
def o3 : Option Bool → String
  | some b => b3 b
  | none => "-"

def PropRow.show (r : PropRow) : String := s!"{r.id}={o3 r.k}{b3 r.pm}{o3 r.pr}"

/-! Projections: the aspects of an expansion a property reads.  The correspondence of a property
    compares only its aspects, so that a change of the code elsewhere in the output does not
    break the tie for a property it cannot affect. -/

def normSig (s : Sig) : Sig := { s with itrail := false }

def memberSigs (ms : List GenMember) : List (Option Sig) := ms.map (fun m => m.sig?.map normSig)
def memberBodies (ms : List GenMember) : List (Option Toks) :=
  ms.map (fun m => match m with | .fn _ _ b => b | .raw t => some t)

inductive Aspect | attrs | vis | header | sigs | bodies | memberAttrs | orig
  deriving DecidableEq

def aspectEq (a : Aspect) (mv rv : View) : Bool :=
  let mt := traitsOf mv.items; let rt := traitsOf rv.items
  let mi := implsOf mv.items; let ri := implsOf rv.items
  match a with
  | .attrs => decide (mt.map (·.attrs) = rt.map (·.attrs) ∧ mi.map (·.attrs) = ri.map (·.attrs))
  | .vis => decide (mt.map (·.vis) = rt.map (·.vis)) &&
      decide ((mv.items.filter (fun g => match g with | .raw _ => true | _ => false)) =
              (rv.items.filter (fun g => match g with | .raw _ => true | _ => false)))
  | .header =>
      decide (mt.map (·.ident) = rt.map (·.ident)) && decide (mt.map (·.params) = rt.map (·.params)) &&
      decide (mt.map (·.colon) = rt.map (·.colon)) && decide (mt.map (·.supertraits) = rt.map (·.supertraits)) &&
      decide (mt.map (·.preds) = rt.map (·.preds)) &&
      decide (mi.map (·.params) = ri.map (·.params)) && decide (mi.map (·.traitRef) = ri.map (·.traitRef)) &&
      decide (mi.map (·.selfTy) = ri.map (·.selfTy)) && decide (mi.map (·.preds) = ri.map (·.preds))
  | .sigs => decide (mt.map (fun t => memberSigs t.members) = rt.map (fun t => memberSigs t.members) ∧
                     mi.map (fun m => memberSigs m.members) = ri.map (fun m => memberSigs m.members))
  | .bodies => decide (mt.map (fun t => memberBodies t.members) = rt.map (fun t => memberBodies t.members) ∧
                       mi.map (fun m => memberBodies m.members) = ri.map (fun m => memberBodies m.members))
  | .memberAttrs => decide (mt.map (fun t => t.members.map GenMember.attrs) = rt.map (fun t => t.members.map GenMember.attrs) ∧
                            mi.map (fun m => m.members.map GenMember.attrs) = ri.map (fun m => m.members.map GenMember.attrs))
  | .orig => mv.origOk == rv.origOk && decide (mv.inherent = rv.inherent)

def aspectsOf : String → List Aspect
  | "C01" => [.sigs, .bodies]
  | "C02" => [.orig]
  | "C03" => [.sigs, .header]
  | "C04" => [.header]
  | "C05" => [.attrs, .header, .bodies, .sigs]
  | "C06" => [.header, .sigs, .bodies]
  | "C07" => [.header, .sigs, .bodies, .vis]
  | "C08" => [.sigs, .vis, .header]
  | "C09" => [.attrs, .header, .sigs, .vis, .memberAttrs, .bodies]
  | "C10" => [.attrs]
  | "C11" => [.attrs, .sigs]
  | "C12" => [.sigs, .bodies, .attrs]
  | "C13" => [.vis]
  | "C14" => [.bodies, .header, .attrs]
  | "C16" => [.sigs]
  | "C18" => [.attrs, .memberAttrs, .sigs]
  | "C19" => [.header, .attrs, .bodies, .sigs]
  | _ => [.attrs, .vis, .header, .sigs, .bodies, .memberAttrs, .orig]

def projEq (prop : String) (mv rv : View) : Bool := (aspectsOf prop).all (fun a => aspectEq a mv rv)

def findings (attr : Toks) (item : Item) (view : View) : List String :=
  (if F_C06_send attr item view then ["C06.send"] else []) ++
  (if F_C09_attrs item view then ["C09.attrs"] else []) ++
  (if F_C09_unsafe item then ["C09.unsafe"] else []) ++
  (if F_C09_default item view then ["C09.default"] else []) ++
  (if F_C09_assoc item view then ["C09.assoc"] else []) ++
  (if !traitParamsNodup view then ["C03.dupgeneric"] else []) ++
  (if item.mode != .fn && item.mode != .trait && item.sourceFns.any (fun f => f.attrs.any isCfg) then ["C18.cfgfn"] else [])

def evalAll (v : Variant) (attr : Toks) (item : Item) (input : Toks) (m : Outcome) (r : Real) (info : String) : String :=
  match m, r with
  | .ok out, .ok _ rout =>
      let mv := out.view
      let rv := realView rout
      -- the real expansion can be brought into the model's shape only if it parses and the
      -- original region is where it is claimed to be
      let observable := rv.parsed
      let stable := synStable item input
      let row (id : String) (f : View → Bool) : PropRow :=
        { id := id, k := if observable then some (projEq id mv rv) else none,
          pm := f mv, pr := if observable then some (f rv) else none }
      let rows : List PropRow :=
        [ row "C01" (P_C01 v attr item),
          { id := "C02", k := some (rv.origOk == mv.origOk || !stable),
            pm := !stable || P_C02 item mv, pr := some (!stable || P_C02 item rv) },
          row "C03" (P_C03 v attr item),
          row "C04" (P_C04 v attr item),
          -- second stage of a concrete-dependency fn: `Impl<T>` must forward to `T: Trait`
          row "C05" (if (metaGet info "nested").isSome then P_C06 attr item else P_C05_full v attr item),
          row "C06" (P_C06 attr item),
          row "C07" (P_C07 attr item),
          row "C08" (P_C08 attr item (metaList info "fns")),
          row "C09" (P_C09 v attr item),
          -- the second stage of a concrete-dependency fn: the nested invocation must not mock
          row "C10" (if (metaGet info "nested").isSome
                     then (fun view => (traitsOf view.items).all (fun t => mockKinds t == item.attrs.filterMap Attr.mockKind))
                     else P_C10 v attr item),
          row "C11" (P_C11 v attr item),
          row "C12" (P_C12 v attr item),
          row "C13" (P_C13 attr item),
          row "C14" (P_C14 attr item),
          row "C16" (P_C16 v attr item),
          row "C18" (P_C18 item),
          row "C19" (P_C19 attr item) ]
      let fs := findings attr item (if observable then rv else mv)
      " ".intercalate (rows.map PropRow.show) ++ s!" stable={b3 stable} idok={b3 item.identsOk} F={",".intercalate fs}"
  | _, _ => ""

def hexDigit (n : Nat) : Char := if n < 10 then Char.ofNat (48 + n) else Char.ofNat (87 + n)
def hexOf (s : String) : String :=
  String.ofList (s.toUTF8.toList.flatMap (fun b => [hexDigit (b.toNat / 16), hexDigit (b.toNat % 16)]))

def parseLocus (s : String) : Option Locus :=
  match s.splitOn ":" with
  | ["call"] => some .callSite
  | ["attr", a, n] => do some (.attr (← a.toNat?) (← n.toNat?))
  | ["item", a, n] => do some (.item (← a.toNat?) (← n.toNat?))
  | _ => none

/-- C15 is about every outcome, not only successful expansions.  `cmp`: the positions of the
    model's printed item are those of the input text (print round trip, syn's printer stable) -/
def evalC15 (v : Variant) (attr : Toks) (item : Item) (m : Outcome) (r : Real) (cmp : Bool) : String :=
  let (rp, rd, parsed) : Bool × Option (List String) × Bool :=
    match r with
    | .ok _ rout => (false, none, rout.parsed)
    | .diag msgs _ => (false, some msgs, true)
    | .panic _ => (true, none, true)
  let (mp, md) : Bool × Option (List String) :=
    match m with
    | .ok _ => (false, none)
    | .diag msg => (false, some [msg])
    | .synErr => (false, match rd with | some msgs => some msgs | none => some ["<syn>"])   -- syn's message is not modelled
    | .panic _ => (true, none)
  -- where the diagnostic points
  let mloc : Option Locus := match m with | .diag _ => diagLocus v attr item | _ => none
  let rlocS : String := match r with | .diag [_] [l] => l | _ => "-"
  let rloc : Option Locus := parseLocus rlocS
  let mAt : Bool := match m with | .diag msg => P_C15_at attr item (some (msg, mloc)) | _ => true
  let rAt : Bool := match r with | .diag [msg] _ => !cmp || P_C15_at attr item (some (msg, rloc)) | _ => true
  let locK : Bool := match m, r with
    | .diag _, .diag [_] _ => !cmp || decide (mloc = rloc)
    | _, _ => true
  let pm := P_C15 attr item mp md true && mAt
  let pr := P_C15 attr item rp rd parsed && rAt
  let msg := match r with | .diag (x :: _) _ => hexOf x | .panic x => hexOf x | _ => ""
  s!"C15={b3 locK}{b3 pm}{b3 pr} msg={msg} mloc={match mloc with | some l => l.show | none => "-"} rloc={rlocS}"

end Entrait.Obs
