import EntraitModel.Wire
namespace Entrait.Obs
open Entrait Entrait.Wire

def evalAll (_v : Variant) (_attr : Toks) (_item : Item) (_m : Outcome) (_r : Real) : String := ""

end Entrait.Obs
