import EntraitModel.Expand
/-
  Decoder for the harness's wire format (see harness/src/wire.rs).  Driver-side code: nothing
  here is referenced by a theorem.
-/
namespace Entrait.Wire
open Entrait

inductive Sx
  | atom (s : String)
  | node (tag : String) (args : List Sx)
  | toks (ts : Toks)
  deriving Repr, Inhabited

def hexVal (c : Char) : Nat :=
  if '0' ≤ c && c ≤ '9' then c.toNat - '0'.toNat
  else if 'a' ≤ c && c ≤ 'f' then c.toNat - 'a'.toNat + 10
  else 0

def unhexBytes : List Char → List UInt8
  | a :: b :: rest => UInt8.ofNat (hexVal a * 16 + hexVal b) :: unhexBytes rest
  | _ => []

def unhex (s : String) : String :=
  match String.fromUTF8? (ByteArray.mk (unhexBytes s.toList).toArray) with
  | some r => r
  | none => "<bad utf8>"

/-- token trees until the matching `)` / `]` -/
partial def parseToks : List String → Toks → Option (Toks × List String)
  | [], _ => none
  | ")" :: rest, acc => some (acc.reverse, rest)
  | "]" :: rest, acc => some (acc.reverse, rest)
  | a :: rest, acc =>
      if a.startsWith "i:" then parseToks rest (.ident (a.drop 2).toString :: acc)
      else if a.startsWith "p:" then
        match (a.drop 2).toString.toList with
        | [c] => parseToks rest (.punct c :: acc)
        | _ => none
      else if a.startsWith "l:" then parseToks rest (.lit (unhex (a.drop 2).toString) :: acc)
      else if a.startsWith "(" then
        let d : Option Delim :=
          match a with
          | "(p" => some .paren | "(b" => some .brace | "(k" => some .bracket | "(n" => some .none
          | _ => none
        match d with
        | none => none
        | some d =>
          match parseToks rest [] with
          | some (inner, rest') => parseToks rest' (.group d inner :: acc)
          | none => none
      else none

mutual
partial def parseSx : List String → Option (Sx × List String)
  | [] => none
  | a :: rest =>
      if a == "[T" then
        match parseToks rest [] with
        | some (ts, rest') => some (.toks ts, rest')
        | none => none
      else if a.startsWith "[" then
        match parseList rest [] with
        | some (args, rest') => some (.node (a.drop 1).toString args, rest')
        | none => none
      else some (.atom a, rest)
partial def parseList : List String → List Sx → Option (List Sx × List String)
  | [], _ => none
  | "]" :: rest, acc => some (acc.reverse, rest)
  | ts, acc =>
      match parseSx ts with
      | some (x, rest) => parseList rest (x :: acc)
      | none => none
end

def parseLine (line : String) : Option Sx :=
  let atoms := (line.splitOn " ").filter (fun s => !s.isEmpty)
  match parseSx atoms with
  | some (x, []) => some x
  | _ => none

/-! ### decoders -/

def dBool : Sx → Option Bool
  | .atom "b:1" => some true
  | .atom "b:0" => some false
  | _ => none

def dName : Sx → Option String
  | .atom a => if a.startsWith "n:" then some (a.drop 2).toString else none
  | _ => none

def dText : Sx → Option String
  | .atom a => if a.startsWith "s:" then some (unhex (a.drop 2).toString) else none
  | _ => none

def dNat : Sx → Option Nat
  | .atom a => if a.startsWith "#" then (a.drop 1).toString.toNat? else none
  | _ => none

def dToks : Sx → Option Toks
  | .toks ts => some ts
  | _ => none

def dOpt {α : Type} (f : Sx → Option α) : Sx → Option (Option α)
  | .atom "-" => some none
  | x => (f x).map some

def dList {α : Type} (f : Sx → Option α) : Sx → Option (List α)
  | .node "L" args => args.mapM f
  | _ => none

def dAttr : Sx → Option Attr
  | .node "attr" [ts] => do some { inner := ← dToks ts }
  | _ => none

def dPat : Sx → Option Pat
  | .node "pid" [r, m, n, sub] => do
      some (.ident (← dBool r) (← dBool m) (← dName n) (← dOpt dToks sub))
  | .node "pother" [ts, bs] => do some (.other (← dToks ts) (← dList dName bs))
  | _ => none

partial def dTy : Sx → Option Ty
  | .node "timpl" [bs, tr] => do some (.implTrait (← dList dToks bs) (← dBool tr))
  | .node "tpath" [q, l, n, f, ts] => do
      some (.path (← dBool q) (← dBool l) (← dNat n) (← dName f) (← dToks ts))
  | .node "tref" [lt, m, e] => do some (.ref_ (← dOpt dName lt) (← dBool m) (← dTy e))
  | .node "tparen" [e] => do some (.paren (← dTy e))
  | .node "tother" [ts] => do some (.other (← dToks ts))
  | _ => none

def dGParam : Sx → Option GParam
  | .node "gty" [as, n, bs, tr, d] => do
      some (.ty (← dList dAttr as) (← dName n) (← dList dToks bs) (← dBool tr) (← dOpt dToks d))
  | .node "glt" [as, n, bs, tr] => do
      some (.lt (← dList dAttr as) (← dName n) (← dList dToks bs) (← dBool tr))
  | .node "gconst" [as, n, t, d] => do
      some (.const_ (← dList dAttr as) (← dName n) (← dToks t) (← dOpt dToks d))
  | _ => none

def dWPred : Sx → Option WherePred
  | .node "wty" [lts, t, bs, tr] => do
      some (.ty (← dToks lts) (← dTy t) (← dList dToks bs) (← dBool tr))
  | .node "wother" [ts] => do some (.other (← dToks ts))
  | _ => none

def dGenerics : Sx → Option Generics
  | .node "gen" [ps, pt, ws, wt] => do
      some { params := ← dList dGParam ps, ptrail := ← dBool pt, preds := ← dList dWPred ws, wtrail := ← dBool wt }
  | _ => none

def dRef : Sx → Option (Option (Option String))
  | .atom "-" => some none
  | .node "some" [x] => do some (some (← dOpt dName x))
  | _ => none

def dArg : Sx → Option FnArg
  | .node "recv" [as, r, m, t] => do
      some (.recv (← dList dAttr as) (← dRef r) (← dBool m) (← dOpt dToks t))
  | .node "typed" [as, pt, t] => do some (.typed (← dList dAttr as) (← dPat pt) (← dTy t))
  | _ => none

def dSig : Sx → Option Sig
  | .node "sig" [c, a, u, abi, n, g, ins, tr, v, o] => do
      some { const_ := ← dBool c, async_ := ← dBool a, unsafe_ := ← dBool u, abi := ← dOpt dToks abi,
             ident := ← dName n, generics := ← dGenerics g, inputs := ← dList dArg ins,
             itrail := ← dBool tr, variadic := ← dOpt dToks v, output := ← dOpt dToks o }
  | _ => none

def dOracle : Sx → Option SigOracleEntry
  | .node "oe" [r, c, s] => do some { remaining := ← dNat r, consumed := ← dNat c, sig := ← dSig s }
  | _ => none

def dMember : Sx → Option TraitMember
  | .node "mfn" [as, s, d, semi] => do
      some (.fn { attrs := ← dList dAttr as, sig := ← dSig s, default := ← dOpt dToks d, semi := ← dBool semi })
  | .node "mtype" [ts] => do some (.type_ (← dToks ts))
  | .node "mother" [ts] => do some (.other (← dToks ts))
  | _ => none

def dItem : Sx → Option Item
  | .node "fn" [as, v, s, bdy] => do
      some (.fn { attrs := ← dList dAttr as, vis := ← dToks v, sig := ← dSig s, body := ← dToks bdy })
  | .node "mod" [as, v, u, n, bdy, o] => do
      some (.mod_ { attrs := ← dList dAttr as, vis := ← dToks v, unsafe_ := ← dBool u, ident := ← dName n,
                    body := ← dToks bdy, oracle := ← dList dOracle o })
  | .node "trait" [as, v, u, au, n, g, c, sup, st, ms] => do
      some (.trait { attrs := ← dList dAttr as, vis := ← dToks v, unsafe_ := ← dBool u, auto_ := ← dBool au,
                     ident := ← dName n, generics := ← dGenerics g, colon := ← dBool c,
                     supertraits := ← dList dToks sup, strail := ← dBool st, members := ← dList dMember ms })
  | .node "impl" [as, u, pth, st, bdy, o] => do
      some (.impl { attrs := ← dList dAttr as, unsafe_ := ← dBool u, traitPath := ← dToks pth,
                    selfTy := ← dToks st, body := ← dToks bdy, oracle := ← dList dOracle o })
  | _ => none

def dGenMember : Sx → Option GenMember
  | .node "gmfn" [as, s, bdy] => do some (.fn (← dList dAttr as) (← dSig s) (← dOpt dToks bdy))
  | .node "gmraw" [ts] => do some (.raw (← dToks ts))
  | _ => none

def dGenItem : Sx → Option GenItem
  | .node "gtrait" [as, v, n, ps, c, sup, st, ws, wt, ms] => do
      some (.trait { attrs := ← dList dAttr as, vis := ← dToks v, ident := ← dName n,
                     params := ← dList dGParam ps, colon := ← dBool c, supertraits := ← dList dToks sup,
                     strail := ← dBool st, preds := ← dList dWPred ws, wtrail := ← dBool wt,
                     members := ← dList dGenMember ms })
  | .node "gimpl" [as, ps, tr, st, ws, ms] => do
      some (.impl { attrs := ← dList dAttr as, params := ← dList dGParam ps, traitRef := ← dToks tr,
                    selfTy := ← dToks st, preds := ← dList dWPred ws, members := ← dList dGenMember ms })
  | .node "graw" [ts] => do some (.raw (← dToks ts))
  | _ => none

/-- the real macro's output, brought into the model's shape by the harness -/
structure ROut where
  prefixOk : Bool
  parsed : Bool
  inherent : Toks
  inside : List GenItem
  after : List GenItem
  deriving Repr, Inhabited

inductive Real
  | ok (toks : Toks) (rout : ROut)
  | diag (msgs : List String) (loci : List String)   -- messages, and where each points (`call`, `attr:a:n`, `item:a:n`, `unk`)
  | panic (msg : String)
  deriving Repr, Inhabited

def dROut : Sx → Option ROut
  | .node "rout" [pk, pd, inh, ins, aft] => do
      some { prefixOk := ← dBool pk, parsed := ← dBool pd, inherent := ← dToks inh,
             inside := ← dList dGenItem ins, after := ← dList dGenItem aft }
  | _ => none

def dReal : Sx → Option Real
  | .node "ok" [ts, r] => do some (.ok (← dToks ts) (← dROut r))
  | .node "diag" [ms, ls] => do some (.diag (← dList dText ms) (← dList dText ls))
  | .node "diag" [ms] => do some (.diag (← dList dText ms) [])
  | .node "panic" [m] => do some (.panic (← dText m))
  | _ => none

def dVariant : Sx → Option Variant
  | .atom "n:plain" => some .plain
  | .atom "n:export" => some .export_
  | .atom "n:unimock" => some .unimock
  | .atom "n:export_unimock" => some .exportUnimock
  | _ => none

structure Case where
  id : String
  variant : Variant
  attr : Toks
  input : Toks
  item : Option Item           -- `none`: outside the modelled domain
  unmodelledReason : String
  real : Real
  info : String
  deriving Repr, Inhabited

def dCase : Sx → Option Case
  | .node "case" [cid, v, a, inp, it, r, mt] => do
      let item : Option Item × String ←
        match it with
        | .node "unmodelled" [reason] => some (none, (dText reason).getD "")
        | x => (dItem x).map (fun y => (some y, ""))
      some { id := ← dName cid, variant := ← dVariant v, attr := ← dToks a, input := ← dToks inp,
             item := item.1, unmodelledReason := item.2, real := ← dReal r,
             info := (dText mt).getD "" }
  | _ => none

end Entrait.Wire
