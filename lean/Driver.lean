import EntraitModel.Wire
import EntraitModel.Obs
/-
  Line-protocol driver: reads the case lines written by the harness (real macro output
  included), runs the model on the same input, and reports per case the agreement of
  outcomes, tokens and structure and, per property, the projection agreement and the value of
  the property predicate on the model's and on the real expansion.
-/
open Entrait Entrait.Wire

mutual
partial def showTT : TT → String
  | .ident s => s
  | .punct c => String.singleton c
  | .lit s => s
  | .group d ts =>
      let (o, c) := match d with
        | .paren => ("(", ")") | .brace => ("{", "}") | .bracket => ("[", "]") | .none => ("⟦", "⟧")
      o ++ " " ++ showToks ts ++ (if ts.isEmpty then "" else " ") ++ c
partial def showToks (ts : Toks) : String := " ".intercalate (ts.map showTT)
end

-- a token list in the wire syntax of the harness: [T i:name p:, l:<hex> (p .. ) ]
mutual
partial def wireTT : TT → String
  | .ident s => "i:" ++ s
  | .punct c => "p:" ++ c.toString
  | .lit s => "l:" ++ Obs.hexOf s
  | .group d ts =>
      (match d with | .paren => "(p" | .brace => "(b" | .bracket => "(k" | .none => "(n") ++ " " ++ wireInner ts ++ ")"
partial def wireInner (ts : Toks) : String := String.join (ts.map (fun t => wireTT t ++ " "))
end
def wireToks (ts : Toks) : String := "[T " ++ wireInner ts ++ "]"

def outcomeKind : Outcome → String
  | .ok _ => "ok"
  | .diag _ => "diag"
  | .synErr => "syn"
  | .panic _ => "panic"

def realKind : Real → String
  | .ok .. => "ok"
  | .diag .. => "diag"
  | .panic _ => "panic"

/-- entrait's own diagnostics (everything else that arrives as `compile_error!` is syn's) -/
def entraitMessages : List String :=
  [msgNoReceiver, msgSelfReceiver, msgNoSelf, msgNoLeadingColon, msgConcreteInModule, msgConcreteInImpl,
   msgNotAllowedHere, msgCustomWithoutTrait, msgUnsupportedTraitItem, msgMissingDelegateBy,
   "Unsupported option", "Read past the end"]

def isEntraitMessage (m : String) : Bool :=
  entraitMessages.contains m || m.startsWith "Unkonwn entrait option"

def outcomesAgree (m : Outcome) (r : Real) : Bool :=
  match m, r with
  | .ok _, .ok .. => true
  | .diag _, .diag msgs _ => !msgs.isEmpty        -- wording and place of the first one are compared separately (Obs.evalC15)
  | .synErr, .diag msgs _ => !(msgs.any isEntraitMessage)
  | .panic _, .panic _ => true
  | _, _ => false

def bstr (b : Bool) : String := if b then "1" else "0"

def processCase (c0 : Case) (verbose : Bool) (owned : List Toks := []) : List String :=
  -- the real expansion up to the macro's own inert attributes (second pass only, see Obs.stripOwnedToward)
  let c : Case :=
    match c0.item with
    | some item =>
        (match expand c0.variant c0.attr item with
         | .ok out => { c0 with real := Obs.stripOwnedToward owned out.inside out.after c0.real }
         | _ => c0)
    | none => { c0 with real := Obs.stripOwned owned c0.real }
  match c.item with
  | none =>
      -- outside the modelled domain: only the real outcome is reported
      let parsed := match c.real with | .ok _ r => r.parsed | _ => true
      let c15 := !(match c.real with | .panic _ => true | _ => false) && parsed
      [s!"RES {c.id} modelled=0 real={realKind c.real} parsed={bstr parsed} C15=-1{bstr c15} reason={c.unmodelledReason.replace " " "_"}"]
  | some item =>
      let rt := decide (item.print = c.input)
      let m := expand c.variant c.attr item
      let agree := outcomesAgree m c.real
      let (tok, struct_, prefixOk, parsed) :=
        match m, c.real with
        | .ok out, .ok toks r =>
            (decide (out.render = toks),
             -- structure is compared up to the Rust-equivalent respelling `Obs.canonItem`
             decide (out.inside = Obs.alignItems out.inside r.inside ∧ out.after = Obs.alignItems out.after r.after) &&
               (match out with | .implOut inh _ => decide (inh = r.inherent) | _ => true),
             r.prefixOk, r.parsed)
        | _, .ok _ r => (false, false, r.prefixOk, r.parsed)
        | _, _ => (true, true, true, true)
      let props := Obs.evalAll c.variant c.attr item c.input m c.real c.info ++ " " ++ Obs.evalC15 c.variant c.attr item m c.real (rt && synStable item c.input)
      -- inert attributes found on generated items (before stripping): `hex(tokens inside #[..]):u`, u = the user wrote it too
      let xa := (Obs.inertOnGenerated item c0.real).map (fun (a, u) => s!"{Obs.hexOf (wireToks a.inner)}:{bstr u}")
      let xaS := if xa.isEmpty then "" else " XA=" ++ ",".intercalate xa.eraseDups
      let head := s!"RES {c.id} modelled=1 rt={bstr rt} model={outcomeKind m} real={realKind c.real} agree={bstr agree} tok={bstr tok} struct={bstr struct_} prefix={bstr prefixOk} parsed={bstr parsed} {props}{xaS}"
      if verbose then
        let mt := match m with
          | .ok out => showToks out.render
          | .diag msg => "DIAG " ++ msg
          | .synErr => "SYNERR"
          | .panic s => "PANIC " ++ s
        let rtxt := match c.real with
          | .ok toks _ => showToks toks
          | .diag msgs loci => "DIAG " ++ " | ".intercalate msgs ++ " @ " ++ " | ".intercalate loci
          | .panic s => "PANIC " ++ s
        [head, s!"INPUT {c.id} {showToks c.input}", s!"ATTR {c.id} {showToks c.attr}",
         s!"PRINT {c.id} {showToks item.print}", s!"MODEL {c.id} {mt}", s!"REAL {c.id} {rtxt}"]
      else [head]

partial def loop (h : IO.FS.Stream) (out : IO.FS.Stream) (verbose : Bool) (owned : List Toks := []) : IO Unit := do
  let line ← h.getLine
  if line.isEmpty then return ()
  let line := line.trimAscii.toString
  if line.startsWith "[lexerr" then
    out.putStrLn s!"LEXERR {line}"
  else
    match parseLine line with
    | none => out.putStrLn "BADLINE"
    | some sx =>
      match dCase sx with
      | none => out.putStrLn s!"BADCASE {(line.take 80).toString}"
      | some c => for l in processCase c verbose owned do out.putStrLn l
  loop h out verbose owned

def main (args : List String) : IO UInt32 := do
  let verbose := args.contains "--verbose"
  let files := args.filter (fun a => !a.startsWith "--")
  let out ← IO.getStdout
  -- second pass: `--owned=<file>`, one attribute per line in the wire syntax of token lists
  let owned : List Toks ←
    match args.find? (fun a => a.startsWith "--owned=") with
    | some a => do
        let txt ← IO.FS.readFile ((a.drop 8).toString)
        pure ((txt.splitOn "\n").filterMap (fun l =>
          let l := l.trimAscii.toString
          if l.isEmpty then none else (parseLine l).bind dToks))
    | none => pure []
  match files with
  | [] => loop (← IO.getStdin) out verbose owned
  | f :: _ =>
      let h ← IO.FS.Handle.mk f .read
      loop (IO.FS.Stream.ofHandle h) out verbose owned
  return 0
