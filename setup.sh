#!/bin/bash
# Builds the framework from files on disk only (offline): the E1 harness against /repo's
# working tree, the Lean model, driver and all theorem modules.
set -e
cd "$(dirname "$0")"
export CARGO_NET_OFFLINE=true
(cd harness && cargo build --offline --quiet)
(cd lean && lake build)
# E2: dependencies and binaries of the compile-and-run probes (probes/), against /repo's working tree
python3 tools/probes.py build > /dev/null 2>&1 || true
