// Build script of the E1 engine: carries /repo/entrait_macros/src/lib.rs (the only file of the
// macro crate that touches `proc_macro`) over to `proc_macro2`, and points every `mod x;` it
// declares at the real source file of the working tree, so that the harness compiles the
// *current* macro sources, not a copy.
use std::{env, fs, path::PathBuf};

fn main() {
    let repo = env::var("ENTRAIT_REPO").unwrap_or_else(|_| "/repo".to_string());
    println!("cargo:rerun-if-env-changed=ENTRAIT_REPO");
    let src_dir = PathBuf::from(&repo).join("entrait_macros/src");
    let lib = src_dir.join("lib.rs");
    println!("cargo:rerun-if-changed={}", lib.display());
    let text = fs::read_to_string(&lib).expect("read lib.rs");

    let mut out = String::new();
    for line in text.lines() {
        let t = line.trim_start();
        if t.starts_with("//!") || t.starts_with("#![") {
            continue;
        }
        if t.starts_with("extern crate proc_macro") {
            continue;
        }
        if t.starts_with("#[proc_macro_attribute]") {
            continue;
        }
        if t.starts_with("use proc_macro::TokenStream") {
            out.push_str("use proc_macro2::TokenStream;\n");
            continue;
        }
        // `mod x;` -> `#[path = ".../x.rs"] mod x;`
        if let Some(rest) = t.strip_prefix("mod ") {
            if let Some(name) = rest.strip_suffix(';') {
                let name = name.trim();
                let f1 = src_dir.join(format!("{name}.rs"));
                let f2 = src_dir.join(name).join("mod.rs");
                let f = if f1.exists() { f1 } else { f2 };
                out.push_str(&format!("#[path = \"{}\"]\npub mod {};\n", f.display(), name));
                continue;
            }
        }
        let mut l = line.replace("proc_macro::TokenStream", "proc_macro2::TokenStream");
        // syn::parse_macro_input!(x as T)  ->  match syn::parse2::<T>(x) { .. }
        while let Some(pos) = l.find("syn::parse_macro_input!(") {
            let after = &l[pos + "syn::parse_macro_input!(".len()..];
            let close = after.find(')').expect("unbalanced parse_macro_input");
            let inner = &after[..close];
            let mut parts = inner.splitn(2, " as ");
            let var = parts.next().unwrap().trim().to_string();
            let ty = parts.next().expect("parse_macro_input without `as`").trim().to_string();
            let repl = format!(
                "match syn::parse2::<{ty}>({var}) {{ Ok(v) => v, Err(e) => return e.to_compile_error() }}"
            );
            let end = pos + "syn::parse_macro_input!(".len() + close + 1;
            l = format!("{}{}{}", &l[..pos], repl, &l[end..]);
        }
        out.push_str(&l);
        out.push('\n');
    }
    if out.contains("proc_macro::") || out.contains("parse_macro_input") {
        panic!("E1 unavailable: lib.rs uses proc_macro in a way the rewrite does not cover");
    }
    let out_dir = PathBuf::from(env::var("OUT_DIR").unwrap());
    fs::write(out_dir.join("entrait_lib.rs"), out).unwrap();
}
