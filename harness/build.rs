// Build script of the E1 engine: lets the harness compile the *current* macro sources of the checkout,
// not a copy.  `entrait_macros/src/lib.rs` is the only file of the macro crate that touches `proc_macro`;
// it is included almost verbatim (inner attributes, `extern crate proc_macro` and the
// `#[proc_macro_attribute]` markers are dropped, every `mod x;` is pointed at the real source file) after
// two shim modules that stand in for what a proc-macro crate gets from the compiler:
//   * `proc_macro::TokenStream` is `proc_macro2::TokenStream`;
//   * `syn::parse_macro_input!` / `syn::parse` (which take the compiler's token stream) are spelled
//     `entrait_verif_parse_macro_input!` (same arms, on `proc_macro2::TokenStream`) / `syn::parse2`.
// So the plumbing of lib.rs may be restructured freely without breaking the engine.
use std::{env, fs, path::PathBuf};

const SHIM: &str = r#"
#[allow(unused_imports, dead_code)]
mod proc_macro {
    pub use ::proc_macro2::TokenStream;
}
#[allow(unused_macros)]
macro_rules! entrait_verif_parse_macro_input {
    ($tokenstream:ident as $ty:ty) => {
        match ::syn::parse2::<$ty>($tokenstream) {
            Ok(data) => data,
            Err(err) => {
                return ::proc_macro2::TokenStream::from(err.to_compile_error());
            }
        }
    };
    ($tokenstream:ident with $parser:path) => {
        match ::syn::parse::Parser::parse2($parser, $tokenstream) {
            Ok(data) => data,
            Err(err) => {
                return ::proc_macro2::TokenStream::from(err.to_compile_error());
            }
        }
    };
    ($tokenstream:ident) => {
        match ::syn::parse2($tokenstream) {
            Ok(data) => data,
            Err(err) => {
                return ::proc_macro2::TokenStream::from(err.to_compile_error());
            }
        }
    };
}
"#;

fn mod_decl(t: &str) -> Option<(&str, &str)> {
    // `mod x;`, `pub mod x;`, `pub(crate) mod x;`  ->  (visibility prefix, name)
    let t = t.trim_end();
    let body = t.strip_suffix(';')?;
    let pos = body.find("mod ")?;
    let (vis, rest) = body.split_at(pos);
    let vis = vis.trim();
    if !(vis.is_empty() || vis == "pub" || (vis.starts_with("pub(") && vis.ends_with(')'))) {
        return None;
    }
    let name = rest["mod ".len()..].trim();
    if name.is_empty() || !name.chars().all(|c| c.is_alphanumeric() || c == '_') {
        return None;
    }
    Some((vis, name))
}

fn main() {
    let repo = env::var("ENTRAIT_REPO").unwrap_or_else(|_| "/repo".to_string());
    println!("cargo:rerun-if-env-changed=ENTRAIT_REPO");
    let src_dir = PathBuf::from(&repo).join("entrait_macros/src");
    let lib = src_dir.join("lib.rs");
    println!("cargo:rerun-if-changed={}", lib.display());
    // a module file may move (`x.rs` -> `x/mod.rs`) without lib.rs changing: re-resolve the paths then
    println!("cargo:rerun-if-changed={}", src_dir.display());
    let text = fs::read_to_string(&lib).expect("read lib.rs");

    let mut out = String::from(SHIM);
    for line in text.lines() {
        let t = line.trim_start();
        if t.starts_with("//!") || t.starts_with("#![") {
            continue;
        }
        if t.starts_with("extern crate proc_macro") || t.starts_with("#[proc_macro_attribute]") {
            continue;
        }
        if let Some((_vis, name)) = mod_decl(t) {
            let f1 = src_dir.join(format!("{name}.rs"));
            let f2 = src_dir.join(name).join("mod.rs");
            if f1.exists() || f2.exists() {
                let f = if f1.exists() { f1 } else { f2 };
                out.push_str(&format!("#[path = \"{}\"]\npub mod {};\n", f.display(), name));
                continue;
            }
        }
        let l = line
            .replace("syn::parse_macro_input!", "entrait_verif_parse_macro_input!")
            .replace("syn::parse::<", "syn::parse2::<")
            .replace("syn::parse(", "syn::parse2(");
        out.push_str(&l);
        out.push('\n');
    }
    let out_dir = PathBuf::from(env::var("OUT_DIR").unwrap());
    fs::write(out_dir.join("entrait_lib.rs"), out).unwrap();
}
