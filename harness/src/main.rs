#![allow(dead_code, unused_imports, clippy::all)]
// The real macro, compiled from the working tree (see build.rs).
include!(concat!(env!("OUT_DIR"), "/entrait_lib.rs"));

fn main() {
    let args: Vec<String> = std::env::args().collect();
    let attr: proc_macro2::TokenStream = args[1].parse().unwrap();
    let item: proc_macro2::TokenStream = args[2].parse().unwrap();
    let r = std::panic::catch_unwind(|| entrait(attr, item));
    match r { Ok(out) => println!("{}", out), Err(_) => println!("PANIC") }
}
