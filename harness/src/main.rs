#![allow(dead_code, unused_imports, clippy::all)]
// Engine E1: the real macro, compiled from the working tree (see build.rs), run in-process.
include!(concat!(env!("OUT_DIR"), "/entrait_lib.rs"));

mod wire;

use proc_macro2::{Delimiter, TokenTree};
use std::io::{BufRead, Write};

type TS = proc_macro2::TokenStream;

fn tt_eq(a: &TokenTree, b: &TokenTree) -> bool {
    match (a, b) {
        (TokenTree::Ident(x), TokenTree::Ident(y)) => x.to_string() == y.to_string(),
        (TokenTree::Punct(x), TokenTree::Punct(y)) => x.as_char() == y.as_char(),
        (TokenTree::Literal(x), TokenTree::Literal(y)) => x.to_string() == y.to_string(),
        (TokenTree::Group(x), TokenTree::Group(y)) => {
            x.delimiter() == y.delimiter() && ts_eq(x.stream(), y.stream())
        }
        _ => false,
    }
}

fn trees(ts: TS) -> Vec<TokenTree> {
    ts.into_iter().collect()
}

fn ts_eq(a: TS, b: TS) -> bool {
    let a = trees(a);
    let b = trees(b);
    a.len() == b.len() && a.iter().zip(b.iter()).all(|(x, y)| tt_eq(x, y))
}

fn starts_with(hay: &[TokenTree], needle: &[TokenTree]) -> bool {
    hay.len() >= needle.len() && hay.iter().zip(needle.iter()).all(|(x, y)| tt_eq(x, y))
}

fn collect(v: &[TokenTree]) -> TS {
    v.iter().cloned().collect()
}

fn is_ident(t: &TokenTree, s: &str) -> bool {
    matches!(t, TokenTree::Ident(i) if i.to_string() == s)
}

fn brace_group(t: &TokenTree) -> Option<TS> {
    match t {
        TokenTree::Group(g) if g.delimiter() == Delimiter::Brace => Some(g.stream()),
        _ => None,
    }
}

/// Leaf positions (depth first, a group counts as its two delimiters around its content) of a
/// token stream that was parsed from one line of text: (start column, end column) per leaf.
fn leaf_positions(ts: TS, out: &mut Vec<(usize, usize)>) {
    for t in ts {
        match t {
            TokenTree::Group(g) => {
                let o = g.span_open();
                out.push((o.start().column, o.end().column));
                leaf_positions(g.stream(), out);
                let c = g.span_close();
                out.push((c.start().column, c.end().column));
            }
            other => {
                let s = other.span();
                out.push((s.start().column, s.end().column));
            }
        }
    }
}

/// Where a diagnostic points: `call` (the macro invocation as a whole), `attr:<first leaf>:<leaves>`
/// or `item:<first leaf>:<leaves>` (a leaf range of the attribute arguments resp. the item, which
/// the harness parsed from line 1 resp. line 2 of their texts), `unk` if the span is neither.
fn locus(start: proc_macro2::Span, end: proc_macro2::Span, attr: &[(usize, usize)], item: &[(usize, usize)]) -> String {
    let (s, e) = (start.start(), end.end());
    if s == start.end() || e == end.start() {
        return "call".into();
    }
    let (tag, leaves) = match (s.line, e.line) {
        (1, 1) => ("attr", attr),
        (2, 2) => ("item", item),
        _ => return "unk".into(),
    };
    let a = leaves.iter().position(|l| l.0 == s.column);
    let b = leaves.iter().position(|l| l.1 == e.column);
    match (a, b) {
        (Some(a), Some(b)) if a <= b => format!("{}:{}:{}", tag, a, b - a + 1),
        _ => "unk".into(),
    }
}

/// `::core::compile_error!{ "msg" }` repeated: the macro reported through the diagnostic channel.
/// Each message comes with the place it points at (syn puts the start of the error's span on the
/// path tokens and its end on the braces).
fn compile_errors(out: &[TokenTree], attr: &[(usize, usize)], item: &[(usize, usize)]) -> Option<Vec<(String, String)>> {
    let mut msgs = vec![];
    let mut i = 0;
    if out.is_empty() {
        return None;
    }
    while i < out.len() {
        let pat = [":", ":", "core", ":", ":", "compile_error", "!"];
        if i + pat.len() >= out.len() {
            return None;
        }
        for (k, want) in pat.iter().enumerate() {
            let ok = match &out[i + k] {
                TokenTree::Punct(p) => p.as_char().to_string() == *want,
                TokenTree::Ident(id) => id.to_string() == *want,
                _ => false,
            };
            if !ok {
                return None;
            }
        }
        let g = brace_group(&out[i + pat.len()])?;
        let inner = trees(g);
        if inner.len() != 1 {
            return None;
        }
        let lit: syn::LitStr = syn::parse2(collect(&inner)).ok()?;
        let at = locus(out[i].span(), out[i + pat.len()].span(), attr, item);
        msgs.push((lit.value(), at));
        i += pat.len() + 1;
    }
    Some(msgs)
}

/// When the original region is not token-identical to the input, find where the generated
/// items start: the first position near the expected one from which the rest parses as
/// exactly a trait followed by an impl.
fn find_generated_suffix(out: &[TokenTree], expected: usize) -> Option<usize> {
    let lo = expected.saturating_sub(24);
    let hi = (expected + 8).min(out.len());
    for j in lo..=hi {
        if j >= out.len() || !(is_ident(&out[j], "trait") || is_ident(&out[j], "pub") || matches!(&out[j], TokenTree::Punct(p) if p.as_char() == '#')) {
            continue;
        }
        if let Ok(f) = syn::parse2::<syn::File>(collect(&out[j..])) {
            if f.items.len() == 2
                && matches!(f.items[0], syn::Item::Trait(_))
                && matches!(f.items[1], syn::Item::Impl(_))
            {
                return Some(j);
            }
        }
    }
    None
}

/// Bring the real output into the shape of the model's `Out`: check the claimed-verbatim
/// original region against the input, parse everything else as generated items.
fn reparse(kind: &str, input: &[TokenTree], out: &[TokenTree]) -> String {
    let empty_list = wire::list(vec![]);
    let fail = |prefix_ok: bool| {
        wire::node(
            "rout",
            &[
                wire::b(prefix_ok).into(),
                wire::b(false).into(),
                wire::toks(TS::new()),
                empty_list.clone(),
                empty_list.clone(),
            ],
        )
    };
    match kind {
        "fn" => {
            let prefix_ok = starts_with(out, input);
            let rest: TS = if prefix_ok {
                collect(&out[input.len()..])
            } else {
                // the original was re-printed differently (e.g. syn dropping an empty `<>`):
                // locate the generated `trait` + `impl` pair near where the original should end
                match find_generated_suffix(out, input.len()) {
                    Some(j) => collect(&out[j..]),
                    None => return fail(false),
                }
            };
            match wire::gen_items(rest) {
                Some(after) => wire::node(
                    "rout",
                    &[
                        wire::b(prefix_ok).into(),
                        wire::b(true).into(),
                        wire::toks(TS::new()),
                        empty_list.clone(),
                        after,
                    ],
                ),
                None => fail(prefix_ok),
            }
        }
        "mod" => {
            // header .. `mod` ident { body }
            let k = (2..input.len()).find(|&k| {
                brace_group(&input[k]).is_some()
                    && matches!(input[k - 1], TokenTree::Ident(_))
                    && is_ident(&input[k - 2], "mod")
            });
            let k = match k {
                Some(k) => k,
                None => return fail(false),
            };
            if out.len() <= k || !starts_with(out, &input[..k]) {
                return fail(false);
            }
            let in_body = trees(brace_group(&input[k]).unwrap());
            let out_body = match brace_group(&out[k]) {
                Some(b) => trees(b),
                None => return fail(false),
            };
            let prefix_ok = starts_with(&out_body, &in_body);
            let split = if prefix_ok {
                in_body.len()
            } else {
                match find_generated_suffix(&out_body, in_body.len()) {
                    Some(j) => j,
                    None => return fail(false),
                }
            };
            let inside = wire::gen_items(collect(&out_body[split..]));
            let after = wire::gen_items(collect(&out[k + 1..]));
            match (inside, after) {
                (Some(i), Some(a)) => wire::node(
                    "rout",
                    &[
                        wire::b(prefix_ok).into(),
                        wire::b(true).into(),
                        wire::toks(TS::new()),
                        i,
                        a,
                    ],
                ),
                _ => fail(prefix_ok),
            }
        }
        "trait" => match wire::gen_items(collect(out)) {
            Some(after) => wire::node(
                "rout",
                &[
                    wire::b(true).into(),
                    wire::b(true).into(),
                    wire::toks(TS::new()),
                    empty_list.clone(),
                    after,
                ],
            ),
            None => fail(true),
        },
        "impl" => {
            let j = match out.iter().position(|t| brace_group(t).is_some()) {
                Some(j) => j,
                None => return fail(false),
            };
            match wire::gen_items(collect(&out[j + 1..])) {
                Some(after) => wire::node(
                    "rout",
                    &[
                        wire::b(true).into(),
                        wire::b(true).into(),
                        wire::toks(collect(&out[..=j])),
                        empty_list.clone(),
                        after,
                    ],
                ),
                None => fail(true),
            }
        }
        _ => {
            // unmodelled input: only record whether the output parses as items at all
            let parsed = syn::parse2::<syn::File>(collect(out)).is_ok();
            wire::node(
                "rout",
                &[
                    wire::b(true).into(),
                    wire::b(parsed).into(),
                    wire::toks(TS::new()),
                    empty_list.clone(),
                    empty_list.clone(),
                ],
            )
        }
    }
}

// ---- span consistency of forwarded identifiers (hygiene, as far as E1 can see it) -------------------------
// In the model a delegating body forwards *the method's own parameter identifiers*.  For rustc "the same
// identifier" includes its span: a forwarded identifier that carries another span than the parameter
// declaration may resolve to another binding, or to none, once macro_rules hygiene is involved (defect repaired
// by b984973; seed R15C01).  proc-macro2's fallback spans carry only locations, so what E1 can observe is: every
// identifier in a generated method body that is spelled like a parameter of that method (or `self`) carries the
// location of that parameter's declaration.  Mismatches are written to `<out>.spans` (one line per case).
static SPAN_NOTES: std::sync::Mutex<Vec<String>> = std::sync::Mutex::new(Vec::new());

fn body_idents(ts: TS, out: &mut Vec<proc_macro2::Ident>) {
    // (the identifier of a lifetime `'a` is not a reference to a parameter `a`)
    let mut after_tick = false;
    for t in ts {
        match t {
            TokenTree::Group(g) => {
                body_idents(g.stream(), out);
                after_tick = false;
            }
            TokenTree::Ident(i) => {
                if !after_tick {
                    out.push(i);
                }
                after_tick = false;
            }
            TokenTree::Punct(p) => after_tick = p.as_char() == '\'' && p.spacing() == proc_macro2::Spacing::Joint,
            _ => after_tick = false,
        }
    }
}

fn span_mismatches_in(region: TS, notes: &mut Vec<String>) {
    use quote::ToTokens;
    let file = match syn::parse2::<syn::File>(region) {
        Ok(f) => f,
        Err(_) => return,
    };
    for item in file.items {
        if let syn::Item::Trait(tr) = &item {
            unmock_span_mismatches(tr, notes);
        }
        let imp = match item {
            syn::Item::Impl(i) if i.trait_.is_some() => i,
            _ => continue,
        };
        for m in imp.items {
            let f = match m {
                syn::ImplItem::Fn(f) => f,
                _ => continue,
            };
            let mut decls: Vec<(String, proc_macro2::LineColumn)> = vec![];
            for a in f.sig.inputs.iter() {
                match a {
                    syn::FnArg::Receiver(r) => decls.push(("self".to_string(), r.self_token.span.start())),
                    syn::FnArg::Typed(t) => {
                        if let syn::Pat::Ident(pi) = &*t.pat {
                            decls.push((pi.ident.to_string(), pi.ident.span().start()));
                        }
                    }
                }
            }
            let mut used = vec![];
            body_idents(f.block.to_token_stream(), &mut used);
            for u in used {
                let name = u.to_string();
                // (an invalid input may declare one name twice: any of the declarations will do)
                if let Some((_, at)) = decls.iter().find(|(n, _)| *n == name) {
                    let here = u.span().start();
                    if !decls.iter().any(|(n, a)| *n == name && *a == here) {
                        notes.push(format!(
                            "{}:{} declared@{}:{} forwarded@{}:{}",
                            f.sig.ident, name, at.line, at.column, here.line, here.column
                        ));
                    }
                }
            }
        }
    }
}

/// `unmock_with = [f(a, b), g, _]` inside the unimock derivation of a generated trait: entry i belongs to method i;
/// the identifiers of an explicit argument list refer to that method's parameters (unimock pastes them into a
/// function with those parameters) and have to carry their spans (seed R10C11).  Notes are prefixed `unmock:`.
fn unmock_span_mismatches(tr: &syn::ItemTrait, notes: &mut Vec<String>) {
    fn find_unmock(ts: TS) -> Option<TS> {
        let v = trees(ts);
        for k in 0..v.len() {
            if is_ident(&v[k], "unmock_with") && k + 2 < v.len() {
                if let TokenTree::Group(g) = &v[k + 2] {
                    if g.delimiter() == Delimiter::Bracket {
                        return Some(g.stream());
                    }
                }
            }
            if let TokenTree::Group(g) = &v[k] {
                if let Some(r) = find_unmock(g.stream()) {
                    return Some(r);
                }
            }
        }
        None
    }
    use quote::ToTokens;
    let list = match tr.attrs.iter().find_map(|a| find_unmock(a.meta.to_token_stream())) {
        Some(l) => l,
        None => return,
    };
    // split at top-level commas
    let mut entries: Vec<Vec<TokenTree>> = vec![vec![]];
    for t in list {
        match &t {
            TokenTree::Punct(p) if p.as_char() == ',' => entries.push(vec![]),
            _ => entries.last_mut().unwrap().push(t),
        }
    }
    let methods: Vec<&syn::TraitItemFn> = tr.items.iter().filter_map(|m| match m { syn::TraitItem::Fn(f) => Some(f), _ => None }).collect();
    for (entry, m) in entries.iter().zip(methods.iter()) {
        let args = match entry.last() {
            Some(TokenTree::Group(g)) if g.delimiter() == Delimiter::Parenthesis && entry.len() >= 2 => g.stream(),
            _ => continue,
        };
        let mut decls: Vec<(String, proc_macro2::LineColumn)> = vec![];
        for a in m.sig.inputs.iter() {
            if let syn::FnArg::Typed(t) = a {
                if let syn::Pat::Ident(pi) = &*t.pat {
                    decls.push((pi.ident.to_string(), pi.ident.span().start()));
                }
            }
        }
        let mut used = vec![];
        body_idents(args, &mut used);
        for u in used {
            let name = u.to_string();
            if decls.iter().any(|(n, _)| *n == name) && !decls.iter().any(|(n, a)| *n == name && *a == u.span().start()) {
                let here = u.span().start();
                notes.push(format!("unmock:{}:{} forwarded@{}:{}", m.sig.ident, name, here.line, here.column));
            }
        }
    }
}

/// the generated regions of an expansion (everything but the user's original tokens), by input kind
fn span_mismatches(kind: &str, input: &[TokenTree], out: &[TokenTree]) -> Vec<String> {
    let mut notes = vec![];
    match kind {
        "fn" => {
            if starts_with(out, input) {
                span_mismatches_in(collect(&out[input.len()..]), &mut notes);
            }
        }
        "mod" => {
            let k = (2..input.len()).find(|&k| {
                brace_group(&input[k]).is_some() && matches!(input[k - 1], TokenTree::Ident(_)) && is_ident(&input[k - 2], "mod")
            });
            if let Some(k) = k {
                if out.len() > k && starts_with(out, &input[..k]) {
                    let in_body = trees(brace_group(&input[k]).unwrap());
                    if let Some(b) = brace_group(&out[k]) {
                        let out_body = trees(b);
                        if starts_with(&out_body, &in_body) {
                            span_mismatches_in(collect(&out_body[in_body.len()..]), &mut notes);
                        }
                    }
                    span_mismatches_in(collect(&out[k + 1..]), &mut notes);
                }
            }
        }
        "trait" => span_mismatches_in(collect(out), &mut notes),
        "impl" => {
            if let Some(j) = out.iter().position(|t| brace_group(t).is_some()) {
                span_mismatches_in(collect(&out[j + 1..]), &mut notes);
            }
        }
        _ => {}
    }
    notes
}

fn run_real(variant: &str, attr: TS, item: TS) -> Result<TS, String> {
    let f: fn(TS, TS) -> TS = match variant {
        "plain" => entrait,
        "export" => entrait_export,
        "unimock" => entrait_unimock,
        "export_unimock" => entrait_export_unimock,
        other => return Err(format!("harness: unknown variant {other}")),
    };
    match std::panic::catch_unwind(move || f(attr, item)) {
        Ok(ts) => Ok(ts),
        Err(payload) => {
            let msg = if let Some(s) = payload.downcast_ref::<&str>() {
                s.to_string()
            } else if let Some(s) = payload.downcast_ref::<String>() {
                s.clone()
            } else {
                "<non-string panic payload>".to_string()
            };
            Err(msg)
        }
    }
}

/// A concrete-dependency fn expands to a trait carrying a nested `#[::entrait::entrait(..)]`;
/// the compiler then expands that attribute in turn.  Derive the second-stage cases
/// (under both facade mappings of `::entrait::entrait`) so that the composition is observed.
fn nested_cases(id: &str, out: &TS) -> Vec<String> {
    let mut res = vec![];
    let file = match syn::parse2::<syn::File>(out.clone()) {
        Ok(f) => f,
        Err(_) => return res,
    };
    for it in file.items {
        if let syn::Item::Trait(mut t) = it {
            let pos = t.attrs.iter().position(|a| {
                let p = a.path();
                p.leading_colon.is_some()
                    && p.segments.len() == 2
                    && p.segments[0].ident == "entrait"
                    && p.segments[1].ident == "entrait"
            });
            if let Some(pos) = pos {
                // attribute macros above the nested one (the unimock derivation) have been
                // expanded by the compiler before the nested invocation sees the trait
                let a = t.attrs.remove(pos);
                t.attrs.drain(..pos);
                // `cfg_attr` is resolved by the compiler before attribute macros run; take the
                // `cfg(test)` configuration, where the gated derivations are present
                for attr in t.attrs.iter_mut() {
                    if attr.path().is_ident("cfg_attr") {
                        if let syn::Meta::List(l) = &attr.meta {
                            let toks = trees(l.tokens.clone());
                            if toks.len() > 2 && is_ident(&toks[0], "test") {
                                let inner = collect(&toks[2..]);
                                if let Ok(meta) = syn::parse2::<syn::Meta>(inner) {
                                    attr.meta = meta;
                                }
                            }
                        }
                    }
                }
                let args: TS = match &a.meta {
                    syn::Meta::List(l) => l.tokens.clone(),
                    _ => TS::new(),
                };
                let item = quote::ToTokens::to_token_stream(&t);
                for (tag, variant) in [("np", "plain"), ("nu", "unimock")] {
                    res.push(format!(
                        "{}~{}_trait\t{}\t{}\t{}\tnested=1",
                        id.rsplit_once('_').map(|x| x.0).unwrap_or(id),
                        tag,
                        variant,
                        args,
                        item
                    ));
                }
            }
        }
    }
    res
}

fn process_line(line: &str) -> String {
    let first = process_one(line);
    // second-stage expansion of nested entrait attributes
    let mut parts = line.splitn(5, '\t');
    let id = parts.next().unwrap_or("");
    let variant = parts.next().unwrap_or("");
    let attr_text = parts.next().unwrap_or("");
    let item_text = parts.next().unwrap_or("");
    if id.contains('~') {
        return first;
    }
    let (attr, item): (TS, TS) = match (attr_text.parse(), item_text.parse()) {
        (Ok(a), Ok(i)) => (a, i),
        _ => return first,
    };
    let mut lines = vec![first];
    if let Ok(out) = run_real(variant, attr, item) {
        // only fn inputs produce the nested attribute; the original fn may have an
        // unparseable body, so look at the part after it
        let out_trees = trees(out);
        let input_trees = trees(item_text.parse::<TS>().unwrap());
        if starts_with(&out_trees, &input_trees) {
            let rest = collect(&out_trees[input_trees.len()..]);
            for l in nested_cases(id, &rest) {
                lines.push(process_one(&l));
            }
        }
    }
    lines.join("\n")
}

fn process_one(line: &str) -> String {
    let mut parts = line.splitn(5, '\t');
    let id = parts.next().unwrap_or("");
    let variant = parts.next().unwrap_or("");
    let attr_text = parts.next().unwrap_or("");
    let item_text = parts.next().unwrap_or("");
    // what the generator knows about the case by construction (e.g. which module entries are
    // visible functions); passed through to the property predicates
    let meta = parts.next().unwrap_or("");
    let attr: TS = match attr_text.parse() {
        Ok(t) => t,
        Err(_) => return format!("[lexerr n:{} ]", id),
    };
    // the item is lexed from the second line of its text, so that a span tells which of the two
    // inputs it belongs to (`locus`)
    let item: TS = match format!("\n{}", item_text).parse() {
        Ok(t) => t,
        Err(_) => return format!("[lexerr n:{} ]", id),
    };
    let (mut attr_leaves, mut item_leaves) = (vec![], vec![]);
    leaf_positions(attr.clone(), &mut attr_leaves);
    leaf_positions(item.clone(), &mut item_leaves);
    let (kind, item_enc) = match wire::encode_item(item.clone()) {
        Ok(enc) => {
            let kind = enc[1..].split(' ').next().unwrap_or("").to_string();
            (kind, enc)
        }
        Err(reason) => (
            "unmodelled".to_string(),
            wire::node("unmodelled", &[wire::text(&reason)]),
        ),
    };
    let input_trees = trees(item.clone());
    let real = match run_real(variant, attr.clone(), item.clone()) {
        Err(msg) => wire::node("panic", &[wire::text(&msg)]),
        Ok(out) => {
            let out_trees = trees(out.clone());
            match compile_errors(&out_trees, &attr_leaves, &item_leaves) {
                Some(msgs) => wire::node(
                    "diag",
                    &[
                        wire::list(msgs.iter().map(|m| wire::text(&m.0))),
                        wire::list(msgs.iter().map(|m| wire::text(&m.1))),
                    ],
                ),
                None => {
                    let notes = span_mismatches(&kind, &input_trees, &out_trees);
                    if !notes.is_empty() {
                        SPAN_NOTES.lock().unwrap().push(format!("{}\t{}", id, notes.join("; ")));
                    }
                    wire::node(
                        "ok",
                        &[wire::toks(out), reparse(&kind, &input_trees, &out_trees)],
                    )
                }
            }
        }
    };
    wire::node(
        "case",
        &[
            wire::name(id),
            wire::name(variant),
            wire::toks(attr),
            wire::toks(item),
            item_enc,
            real,
            wire::text(meta),
        ],
    )
}

/// `extract <out.tsv> <file.rs>...`: every item carrying an entrait attribute in the given source
/// files (the repository's own tests, examples and documentation) becomes a case, so that the
/// repository's own usage is part of every correspondence run.
mod extract {
    use quote::ToTokens;
    use syn::visit::Visit;

    pub struct Finder {
        pub out: Vec<(String, String, String, String)>, // (kind, variant, attr, item)
    }

    fn variant_of(path: &syn::Path) -> Option<&'static str> {
        let last = path.segments.last()?.ident.to_string();
        match last.as_str() {
            "entrait" => Some("plain"),
            "entrait_export" => Some("export"),
            "entrait_unimock" => Some("unimock"),
            "entrait_export_unimock" => Some("export_unimock"),
            _ => None,
        }
    }

    impl Finder {
        fn take(&mut self, kind: &str, attrs: &[syn::Attribute], strip: impl Fn(Vec<syn::Attribute>) -> String) {
            for (k, a) in attrs.iter().enumerate() {
                if let Some(v) = variant_of(a.path()) {
                    let args = match &a.meta {
                        syn::Meta::List(l) => l.tokens.to_string(),
                        _ => String::new(),
                    };
                    // attributes above entrait are expanded before it and are not its input
                    let below: Vec<syn::Attribute> = attrs[k + 1..].to_vec();
                    let item = strip(below).replace('\n', " ").replace('\t', " ");
                    self.out.push((kind.to_string(), v.to_string(), args.replace('\n', " ").replace('\t', " "), item));
                    break;
                }
            }
        }
    }

    impl<'ast> Visit<'ast> for Finder {
        fn visit_item_fn(&mut self, i: &'ast syn::ItemFn) {
            self.take("fn", &i.attrs, |below| { let mut c = i.clone(); c.attrs = below; c.to_token_stream().to_string() });
            syn::visit::visit_item_fn(self, i);
        }
        fn visit_item_mod(&mut self, i: &'ast syn::ItemMod) {
            self.take("mod", &i.attrs, |below| { let mut c = i.clone(); c.attrs = below; c.to_token_stream().to_string() });
            syn::visit::visit_item_mod(self, i);
        }
        fn visit_item_trait(&mut self, i: &'ast syn::ItemTrait) {
            self.take("trait", &i.attrs, |below| { let mut c = i.clone(); c.attrs = below; c.to_token_stream().to_string() });
            syn::visit::visit_item_trait(self, i);
        }
        fn visit_item_impl(&mut self, i: &'ast syn::ItemImpl) {
            self.take("impl", &i.attrs, |below| { let mut c = i.clone(); c.attrs = below; c.to_token_stream().to_string() });
            syn::visit::visit_item_impl(self, i);
        }
    }

    /// Rust code inside documentation comments (```rust fenced blocks of `//!` / `///` lines and of markdown files)
    pub fn doc_blocks(text: &str, markdown: bool) -> Vec<String> {
        let mut blocks = vec![];
        let mut cur: Option<String> = None;
        for line in text.lines() {
            let l = if markdown {
                Some(line.to_string())
            } else {
                let t = line.trim_start();
                t.strip_prefix("//!").or_else(|| t.strip_prefix("///")).map(|s| s.to_string())
            };
            let Some(l) = l else { cur = None; continue };
            let body = l.strip_prefix(' ').unwrap_or(&l).to_string();
            if body.trim_start().starts_with("```") {
                match cur.take() {
                    Some(b) => blocks.push(b),
                    None => {
                        let tag = body.trim_start().trim_start_matches('`').trim();
                        if tag.is_empty() || tag.starts_with("rust") || tag == "no_run" || tag == "ignore" {
                            cur = Some(String::new());
                        }
                    }
                }
            } else if let Some(b) = cur.as_mut() {
                // hidden doctest lines
                let shown = body.strip_prefix("# ").unwrap_or(if body == "#" { "" } else { &body });
                b.push_str(shown);
                b.push('\n');
            }
        }
        blocks
    }

    pub fn run(out: &str, files: &[String]) {
        let mut finder = Finder { out: vec![] };
        for f in files {
            let Ok(text) = std::fs::read_to_string(f) else { continue };
            let mut sources = vec![];
            if f.ends_with(".md") {
                sources.extend(doc_blocks(&text, true));
            } else {
                sources.push(text.clone());
                sources.extend(doc_blocks(&text, false));
            }
            for src in sources {
                if let Ok(file) = syn::parse_file(&src) {
                    finder.visit_file(&file);
                } else if let Ok(file) = syn::parse_file(&format!("fn __doc() {{ {} }}", src)) {
                    finder.visit_file(&file);
                }
            }
        }
        let mut seen = std::collections::BTreeSet::new();
        let mut w = String::new();
        for (kind, v, attr, item) in finder.out {
            if seen.insert((v.clone(), attr.clone(), item.clone())) {
                w.push_str(&format!("{}\t{}\t{}\t{}\t\n", kind, v, attr, item));
            }
        }
        std::fs::write(out, w).expect("write extracted cases");
    }
}

fn main() {
    let args: Vec<String> = std::env::args().collect();
    if args.len() >= 3 && args[1] == "extract" {
        extract::run(&args[2], &args[3..]);
        return;
    }
    if args.len() < 3 {
        eprintln!("usage: {} <cases.tsv> <out.cases> [threads]", args[0]);
        std::process::exit(2);
    }
    // panics of the macro under test are caught per case; keep stderr quiet
    std::panic::set_hook(Box::new(|_| {}));
    let threads: usize = args.get(3).and_then(|s| s.parse().ok()).unwrap_or(16);
    let file = std::fs::File::open(&args[1]).expect("open cases");
    let lines: Vec<String> = std::io::BufReader::new(file)
        .lines()
        .map(|l| l.expect("read line"))
        .filter(|l| !l.is_empty())
        .collect();
    let n = lines.len();
    let chunk = (n + threads - 1) / threads.max(1);
    let lines = std::sync::Arc::new(lines);
    let mut handles = vec![];
    // watchdog: which case each worker is on, and since when.  A macro that does not return on some input
    // would otherwise hang the whole check; the offending case is named on stderr (`HANG <case line>`) and the
    // process exits with status 4.  ENTRAIT_VERIF_HANG_SECS overrides the limit (default 20 s per case).
    let limit = std::env::var("ENTRAIT_VERIF_HANG_SECS").ok().and_then(|s| s.parse::<u64>().ok()).unwrap_or(20);
    let slots: std::sync::Arc<Vec<std::sync::Mutex<Option<(usize, std::time::Instant)>>>> =
        std::sync::Arc::new((0..threads).map(|_| std::sync::Mutex::new(None)).collect());
    {
        let slots = slots.clone();
        let lines = lines.clone();
        std::thread::spawn(move || loop {
            std::thread::sleep(std::time::Duration::from_millis(500));
            for slot in slots.iter() {
                let cur = *slot.lock().unwrap();
                if let Some((idx, since)) = cur {
                    if since.elapsed().as_secs() >= limit {
                        eprintln!("HANG {}", lines[idx]);
                        std::process::exit(4);
                    }
                }
            }
        });
    }
    for t in 0..threads {
        let lines = lines.clone();
        let slots = slots.clone();
        handles.push(
            std::thread::Builder::new()
                .stack_size(64 << 20)
                .spawn(move || {
                    let lo = (t * chunk).min(lines.len());
                    let hi = ((t + 1) * chunk).min(lines.len());
                    let mut out = Vec::with_capacity(hi - lo);
                    for i in lo..hi {
                        *slots[t].lock().unwrap() = Some((i, std::time::Instant::now()));
                        out.push(process_line(&lines[i]));
                    }
                    *slots[t].lock().unwrap() = None;
                    out
                })
                .unwrap(),
        );
    }
    let mut w = std::io::BufWriter::new(std::fs::File::create(&args[2]).expect("create out"));
    for h in handles {
        for l in h.join().expect("worker") {
            writeln!(w, "{}", l).unwrap();
        }
    }
    let mut sp = std::io::BufWriter::new(std::fs::File::create(format!("{}.spans", &args[2])).expect("create spans"));
    for l in SPAN_NOTES.lock().unwrap().iter() {
        writeln!(sp, "{}", l).unwrap();
    }
}
