//! Wire format between the harness and the Lean driver: whitespace separated atoms,
//! `[tag ..]` nodes, `[T tok ..]` token lists, `[L x ..]` lists.
//!
//! This file contains the *encoder*: syn's AST, restricted to what entrait inspects, is written
//! out structurally; everything else is written as opaque tokens.  Nothing here calls into the
//! macro under test.

use proc_macro2::{Delimiter, TokenStream, TokenTree};
use quote::ToTokens;
use syn::punctuated::Punctuated;

pub fn hex(s: &str) -> String {
    let mut out = String::with_capacity(s.len() * 2);
    for b in s.as_bytes() {
        out.push_str(&format!("{:02x}", b));
    }
    out
}

pub fn b(v: bool) -> &'static str {
    if v {
        "b:1"
    } else {
        "b:0"
    }
}

pub fn name(s: &str) -> String {
    format!("n:{}", s)
}

pub fn text(s: &str) -> String {
    format!("s:{}", hex(s))
}

pub fn tokens_into(ts: TokenStream, out: &mut String) {
    for tt in ts {
        match tt {
            TokenTree::Ident(i) => {
                out.push_str(" i:");
                out.push_str(&i.to_string());
            }
            TokenTree::Punct(p) => {
                out.push_str(" p:");
                out.push(p.as_char());
            }
            TokenTree::Literal(l) => {
                out.push_str(" l:");
                out.push_str(&hex(&l.to_string()));
            }
            TokenTree::Group(g) => {
                out.push_str(match g.delimiter() {
                    Delimiter::Parenthesis => " (p",
                    Delimiter::Brace => " (b",
                    Delimiter::Bracket => " (k",
                    Delimiter::None => " (n",
                });
                tokens_into(g.stream(), out);
                out.push_str(" )");
            }
        }
    }
}

/// `[T ..]`
pub fn toks(ts: TokenStream) -> String {
    let mut out = String::from("[T");
    tokens_into(ts, &mut out);
    out.push_str(" ]");
    out
}

pub fn toks_of<T: ToTokens>(t: &T) -> String {
    toks(t.to_token_stream())
}

pub fn opt_toks<T: ToTokens>(t: &Option<T>) -> String {
    match t {
        Some(t) => toks_of(t),
        None => "-".to_string(),
    }
}

pub fn list<I: IntoIterator<Item = String>>(items: I) -> String {
    let mut out = String::from("[L");
    for it in items {
        out.push(' ');
        out.push_str(&it);
    }
    out.push_str(" ]");
    out
}

pub fn node(tag: &str, fields: &[String]) -> String {
    let mut out = format!("[{}", tag);
    for f in fields {
        out.push(' ');
        out.push_str(f);
    }
    out.push_str(" ]");
    out
}

pub fn attr(a: &syn::Attribute) -> Result<String, String> {
    if !matches!(a.style, syn::AttrStyle::Outer) {
        return Err("inner attribute".into());
    }
    // `#[inner]`: the tokens inside the bracket
    let mut inner = TokenStream::new();
    let mut it = a.to_token_stream().into_iter();
    let _pound = it.next();
    match it.next() {
        Some(TokenTree::Group(g)) if g.delimiter() == Delimiter::Bracket => inner = g.stream(),
        _ => return Err("attribute without bracket".into()),
    }
    let _ = &mut inner;
    Ok(node("attr", &[toks(inner)]))
}

pub fn attrs(attrs: &[syn::Attribute]) -> Result<String, String> {
    let mut v = vec![];
    for a in attrs {
        v.push(attr(a)?);
    }
    Ok(list(v))
}

struct BindingCollector {
    names: Vec<String>,
}

impl<'ast> syn::visit::Visit<'ast> for BindingCollector {
    fn visit_pat_ident(&mut self, i: &'ast syn::PatIdent) {
        // not descending below a PatIdent: this is the AST view the model's `Pat.other` documents
        self.names.push(i.ident.to_string());
    }
}

pub fn pat(p: &syn::Pat) -> String {
    match p {
        syn::Pat::Ident(pi) if pi.attrs.is_empty() => node(
            "pid",
            &[
                b(pi.by_ref.is_some()).into(),
                b(pi.mutability.is_some()).into(),
                name(&pi.ident.to_string()),
                match &pi.subpat {
                    Some((_, sub)) => toks_of(sub),
                    None => "-".into(),
                },
            ],
        ),
        other => {
            let mut c = BindingCollector { names: vec![] };
            syn::visit::Visit::visit_pat(&mut c, other);
            node(
                "pother",
                &[toks_of(other), list(c.names.iter().map(|n| name(n)))],
            )
        }
    }
}

pub fn bounds<T: ToTokens, P>(bs: &Punctuated<T, P>) -> String {
    list(bs.iter().map(|b| toks_of(b)))
}

pub fn ty(t: &syn::Type) -> String {
    match t {
        syn::Type::ImplTrait(it) => node(
            "timpl",
            &[bounds(&it.bounds), b(it.bounds.trailing_punct()).into()],
        ),
        syn::Type::Path(tp) => node(
            "tpath",
            &[
                b(tp.qself.is_some()).into(),
                b(tp.path.leading_colon.is_some()).into(),
                format!("#{}", tp.path.segments.len()),
                name(
                    &tp.path
                        .segments
                        .first()
                        .map(|s| s.ident.to_string())
                        .unwrap_or_default(),
                ),
                toks_of(tp),
            ],
        ),
        syn::Type::Reference(r) => node(
            "tref",
            &[
                match &r.lifetime {
                    Some(l) => name(&l.ident.to_string()),
                    None => "-".into(),
                },
                b(r.mutability.is_some()).into(),
                ty(&r.elem),
            ],
        ),
        syn::Type::Paren(p) => node("tparen", &[ty(&p.elem)]),
        other => node("tother", &[toks_of(other)]),
    }
}

pub fn gparam(p: &syn::GenericParam) -> Result<String, String> {
    Ok(match p {
        syn::GenericParam::Type(t) => node(
            "gty",
            &[
                attrs(&t.attrs)?,
                name(&t.ident.to_string()),
                bounds(&t.bounds),
                b(t.bounds.trailing_punct()).into(),
                opt_toks(&t.default),
            ],
        ),
        syn::GenericParam::Lifetime(l) => node(
            "glt",
            &[
                attrs(&l.attrs)?,
                name(&l.lifetime.ident.to_string()),
                bounds(&l.bounds),
                b(l.bounds.trailing_punct()).into(),
            ],
        ),
        syn::GenericParam::Const(c) => node(
            "gconst",
            &[
                attrs(&c.attrs)?,
                name(&c.ident.to_string()),
                toks_of(&c.ty),
                opt_toks(&c.default),
            ],
        ),
    })
}

pub fn wpred(p: &syn::WherePredicate) -> String {
    match p {
        syn::WherePredicate::Type(t) => node(
            "wty",
            &[
                match &t.lifetimes {
                    Some(l) => toks_of(l),
                    None => toks(TokenStream::new()),
                },
                ty(&t.bounded_ty),
                bounds(&t.bounds),
                b(t.bounds.trailing_punct()).into(),
            ],
        ),
        other => node("wother", &[toks_of(other)]),
    }
}

pub fn gparams(g: &syn::Generics) -> Result<String, String> {
    let mut ps = vec![];
    for p in &g.params {
        ps.push(gparam(p)?);
    }
    Ok(list(ps))
}

pub fn wpreds(g: &syn::Generics) -> (String, bool) {
    match &g.where_clause {
        Some(w) => (
            list(w.predicates.iter().map(wpred)),
            w.predicates.trailing_punct(),
        ),
        None => (list(vec![]), false),
    }
}

pub fn generics(g: &syn::Generics) -> Result<String, String> {
    let (preds, wtrail) = wpreds(g);
    Ok(node(
        "gen",
        &[
            gparams(g)?,
            b(g.params.trailing_punct()).into(),
            preds,
            b(wtrail).into(),
        ],
    ))
}

pub fn fn_arg(a: &syn::FnArg) -> Result<String, String> {
    Ok(match a {
        syn::FnArg::Receiver(r) => node(
            "recv",
            &[
                attrs(&r.attrs)?,
                match &r.reference {
                    None => "-".into(),
                    Some((_, None)) => node("some", &["-".into()]),
                    Some((_, Some(l))) => node("some", &[name(&l.ident.to_string())]),
                },
                b(r.mutability.is_some()).into(),
                if r.colon_token.is_some() {
                    toks_of(&r.ty)
                } else {
                    "-".into()
                },
            ],
        ),
        syn::FnArg::Typed(t) => node("typed", &[attrs(&t.attrs)?, pat(&t.pat), ty(&t.ty)]),
    })
}

pub fn sig(s: &syn::Signature) -> Result<String, String> {
    let mut inputs = vec![];
    for a in &s.inputs {
        inputs.push(fn_arg(a)?);
    }
    Ok(node(
        "sig",
        &[
            b(s.constness.is_some()).into(),
            b(s.asyncness.is_some()).into(),
            b(s.unsafety.is_some()).into(),
            opt_toks(&s.abi),
            name(&s.ident.to_string()),
            generics(&s.generics)?,
            list(inputs),
            b(s.inputs.trailing_punct()).into(),
            opt_toks(&s.variadic),
            match &s.output {
                syn::ReturnType::Default => "-".into(),
                syn::ReturnType::Type(_, t) => toks_of(t),
            },
        ],
    ))
}

/// For every top-level position of a module / impl body that could start a function
/// signature: does `syn::Signature` parse there, and how many trees does it consume.
pub fn sig_oracle(body: &[TokenTree]) -> Result<String, String> {
    use syn::parse::Parser;
    let n = body.len();
    let mut entries = vec![];
    for p in 0..n {
        let starts = match &body[p] {
            TokenTree::Ident(i) => {
                let s = i.to_string();
                s == "fn" || s == "const" || s == "async" || s == "unsafe" || s == "extern"
            }
            _ => false,
        };
        if !starts {
            continue;
        }
        let stream: TokenStream = body[p..].iter().cloned().collect();
        let parser = |input: syn::parse::ParseStream| -> syn::Result<(syn::Signature, usize)> {
            let s: syn::Signature = input.parse()?;
            let rest: TokenStream = input.parse()?;
            Ok((s, rest.into_iter().count()))
        };
        if let Ok((s, rest)) = parser.parse2(stream) {
            let remaining = n - p;
            let consumed = remaining - rest;
            entries.push(node(
                "oe",
                &[
                    format!("#{}", remaining),
                    format!("#{}", consumed),
                    sig(&s)?,
                ],
            ));
        }
    }
    Ok(list(entries))
}

pub fn trait_member(m: &syn::TraitItem) -> Result<String, String> {
    Ok(match m {
        syn::TraitItem::Fn(f) => node(
            "mfn",
            &[
                attrs(&f.attrs)?,
                sig(&f.sig)?,
                opt_toks(&f.default),
                b(f.semi_token.is_some()).into(),
            ],
        ),
        syn::TraitItem::Type(t) => node("mtype", &[toks_of(t)]),
        other => node("mother", &[toks_of(other)]),
    })
}

pub fn item_trait(t: &syn::ItemTrait) -> Result<String, String> {
    if t.restriction.is_some() {
        return Err("trait restriction".into());
    }
    let mut members = vec![];
    for m in &t.items {
        members.push(trait_member(m)?);
    }
    Ok(node(
        "trait",
        &[
            attrs(&t.attrs)?,
            toks_of(&t.vis),
            b(t.unsafety.is_some()).into(),
            b(t.auto_token.is_some()).into(),
            name(&t.ident.to_string()),
            generics(&t.generics)?,
            b(t.colon_token.is_some()).into(),
            bounds(&t.supertraits),
            b(t.supertraits.trailing_punct()).into(),
            list(members),
        ],
    ))
}

/// The macro input, as the model's `Item`.  `Err` = outside the modelled domain (syn rejects
/// it, or it uses something the model does not represent); such cases are only used for the
/// no-panic / output-parses checks.
pub fn encode_item(input: TokenStream) -> Result<String, String> {
    use syn::parse::Parser;
    let all = input.clone();
    let parser = move |input: syn::parse::ParseStream| -> syn::Result<Result<String, String>> {
        let item_attrs = input.call(syn::Attribute::parse_outer)?;
        let vis: syn::Visibility = input.parse()?;
        let ahead = input.fork();
        let _: Option<syn::Token![unsafe]> = ahead.parse()?;
        let _: Option<syn::Token![auto]> = ahead.parse()?;
        if ahead.peek(syn::Token![trait]) {
            let _: TokenStream = input.parse()?;
            let t: syn::ItemTrait = syn::parse2(all.clone())?;
            return Ok(item_trait(&t));
        }
        if ahead.peek(syn::Token![impl]) {
            if !matches!(vis, syn::Visibility::Inherited) {
                let _: TokenStream = input.parse()?;
                return Ok(Err("visibility on impl".into()));
            }
            let unsafety: Option<syn::Token![unsafe]> = input.parse()?;
            let _: syn::Token![impl] = input.parse()?;
            let path: syn::Path = input.parse()?;
            let _: syn::Token![for] = input.parse()?;
            let self_ty: syn::Type = input.parse()?;
            let content;
            let _ = syn::braced!(content in input);
            let body: Vec<TokenTree> = content.parse::<TokenStream>()?.into_iter().collect();
            return Ok((|| {
                Ok(node(
                    "impl",
                    &[
                        attrs(&item_attrs)?,
                        b(unsafety.is_some()).into(),
                        toks_of(&path),
                        toks_of(&self_ty),
                        toks(body.iter().cloned().collect()),
                        sig_oracle(&body)?,
                    ],
                ))
            })());
        }
        if ahead.peek(syn::Token![mod]) {
            let unsafety: Option<syn::Token![unsafe]> = input.parse()?;
            let _: syn::Token![mod] = input.parse()?;
            let ident: syn::Ident = input.parse()?;
            let content;
            let _ = syn::braced!(content in input);
            let body: Vec<TokenTree> = content.parse::<TokenStream>()?.into_iter().collect();
            return Ok((|| {
                Ok(node(
                    "mod",
                    &[
                        attrs(&item_attrs)?,
                        toks_of(&vis),
                        b(unsafety.is_some()).into(),
                        name(&ident.to_string()),
                        toks(body.iter().cloned().collect()),
                        sig_oracle(&body)?,
                    ],
                ))
            })());
        }
        let s: syn::Signature = input.parse()?;
        let body: TokenStream = input.parse()?;
        Ok((|| {
            Ok(node(
                "fn",
                &[attrs(&item_attrs)?, toks_of(&vis), sig(&s)?, toks(body)],
            ))
        })())
    };
    match parser.parse2(input) {
        Ok(r) => r,
        Err(e) => Err(format!("syn: {}", e)),
    }
}

// ---------------------------------------------------------------------------------------------
// Re-parsing of the real macro's output into the model's `GenItem`s
// ---------------------------------------------------------------------------------------------

fn block_inner(block: &syn::Block) -> TokenStream {
    let mut ts = TokenStream::new();
    for s in &block.stmts {
        s.to_tokens(&mut ts);
    }
    ts
}

fn gen_trait(t: &syn::ItemTrait) -> Result<String, String> {
    if t.unsafety.is_some() || t.auto_token.is_some() || t.restriction.is_some() {
        return Ok(node("graw", &[toks_of(t)]));
    }
    let mut members = vec![];
    for m in &t.items {
        members.push(match m {
            syn::TraitItem::Fn(f) => node(
                "gmfn",
                &[
                    attrs(&f.attrs)?,
                    sig(&f.sig)?,
                    match &f.default {
                        Some(b) => toks(block_inner(b)),
                        None => "-".into(),
                    },
                ],
            ),
            other => node("gmraw", &[toks_of(other)]),
        });
    }
    let (preds, wtrail) = wpreds(&t.generics);
    Ok(node(
        "gtrait",
        &[
            attrs(&t.attrs)?,
            toks_of(&t.vis),
            name(&t.ident.to_string()),
            gparams(&t.generics)?,
            b(t.colon_token.is_some()).into(),
            bounds(&t.supertraits),
            b(t.supertraits.trailing_punct()).into(),
            preds,
            b(wtrail).into(),
            list(members),
        ],
    ))
}

fn gen_impl(m: &syn::ItemImpl) -> Result<String, String> {
    let trait_ref = match &m.trait_ {
        Some((None, path, _)) => path,
        _ => return Ok(node("graw", &[toks_of(m)])),
    };
    if m.unsafety.is_some() || m.defaultness.is_some() {
        return Ok(node("graw", &[toks_of(m)]));
    }
    let mut members = vec![];
    for it in &m.items {
        members.push(match it {
            syn::ImplItem::Fn(f)
                if matches!(f.vis, syn::Visibility::Inherited) && f.defaultness.is_none() =>
            {
                node(
                    "gmfn",
                    &[attrs(&f.attrs)?, sig(&f.sig)?, toks(block_inner(&f.block))],
                )
            }
            other => node("gmraw", &[toks_of(other)]),
        });
    }
    let (preds, _wtrail) = wpreds(&m.generics);
    Ok(node(
        "gimpl",
        &[
            attrs(&m.attrs)?,
            gparams(&m.generics)?,
            toks_of(trait_ref),
            toks_of(&m.self_ty),
            preds,
            list(members),
        ],
    ))
}

/// `None`: the tokens do not parse as a sequence of items.
pub fn gen_items(ts: TokenStream) -> Option<String> {
    let file: syn::File = syn::parse2(ts).ok()?;
    let mut out = vec![];
    for it in &file.items {
        let enc = match it {
            syn::Item::Trait(t) => gen_trait(t),
            syn::Item::Impl(m) => gen_impl(m),
            other => Ok(node("graw", &[toks_of(other)])),
        };
        match enc {
            Ok(s) => out.push(s),
            Err(_) => out.push(node("graw", &[toks_of(it)])),
        }
    }
    Some(list(out))
}
